/* C01 + C09: the 2D cross-section entry point World::properties(array<double,2>, depth, properties)
 *
 *  - refuses (exception) when no cross section was declared (dim != 2);
 *  - evaluates the 3D entry point exactly once, with the same depth and request, at the Cartesian image of
 *    cartesian: (o + x*u, z)           spherical: (r = sqrt(x*x+z*z), o + atan2(z,x)*u)
 *    where o = first cross-section point, u = unit direction stored in surface_coord_conversions;
 *  - returns the 3D answer with the same number of values, every slot bit-identical, except that each
 *    velocity block (vx,vy,vz) becomes (u.(vx,vy), vz, 0).
 */
#include "spec.h"

/* ghost protocol state */
struct World *g_world;
const void *g_props;
double g_depth;
int g_cs_kind;                                  /* what natural_coordinate_system() answers */
int g_n2c_calls, g_3d_calls;
double g_n2c_in0, g_n2c_in1, g_n2c_in2;         /* argument seen by natural_to_cartesian_coordinates */
double g_cart0, g_cart1, g_cart2;               /* what it returns */
double g_before;                                /* 3D answer at slot wb_g_slot */
double g_v0, g_v1, g_v2;                        /* 3D velocity block containing wb_g_slot, if any */
double g_proj;                                  /* ghost: u.(g_v0,g_v1), named once before the loop */
#include "gen.c"

#define P2D_PROPS(v) ((v)->data)

enum enum_CoordinateSystem CoordinateSystems_Interface_natural_coordinate_system__contract(struct CoordinateSystems_Interface *this_)
__CPROVER_requires(this_ == g_world->parameters.coordinate_system)
__CPROVER_assigns()
__CPROVER_ensures(__CPROVER_return_value == g_cs_kind)
;

struct arr_double_3 CoordinateSystems_Interface_natural_to_cartesian_coordinates__contract(struct CoordinateSystems_Interface *this_, struct arr_double_3 *position)
__CPROVER_requires(this_ == g_world->parameters.coordinate_system)
__CPROVER_requires(__CPROVER_r_ok(position, sizeof(*position)))
__CPROVER_assigns(g_n2c_calls, g_n2c_in0, g_n2c_in1, g_n2c_in2)
__CPROVER_ensures(g_n2c_calls == __CPROVER_old(g_n2c_calls) + 1)
__CPROVER_ensures(SAMEL(g_n2c_in0, position->e[0]) && SAMEL(g_n2c_in1, position->e[1]) && SAMEL(g_n2c_in2, position->e[2]))
__CPROVER_ensures(SAMEL(__CPROVER_return_value.e[0], g_cart0) && SAMEL(__CPROVER_return_value.e[1], g_cart1) && SAMEL(__CPROVER_return_value.e[2], g_cart2))
;

/* Interface contract of the 3D entry point World::properties(array<double,3>, depth, properties), shared by
 * the unit that enforces it on the real 3D function and by the units that call it (2D wrapper, single-property
 * entry points, C/C++ wrappers).  Ghost constants fixed by the caller's precondition:
 *   the layout tables of spec.h (g_pre, g_total, g_allvalid, g_invel, g_veloff) for the request
 */
struct vec_double World_properties_3d__contract(struct World *this_, struct arr_double_3 *point_, double depth, struct vec_arr_uint_3 *properties)
__CPROVER_requires(this_ == g_world && (const void *)properties == g_props && SAMEL(depth, g_depth) && g_3d_calls == 0)
__CPROVER_requires(__CPROVER_r_ok(point_, sizeof(*point_)))
__CPROVER_requires(SAMEL(point_->e[0], g_cart0) && SAMEL(point_->e[1], g_cart1) && SAMEL(point_->e[2], g_cart2))
__CPROVER_assigns(g_3d_calls, wb_thrown)
__CPROVER_ensures(g_3d_calls == 1 && IS_BOOL(wb_thrown))
__CPROVER_ensures(!wb_thrown ==> (g_allvalid && __CPROVER_return_value.n == g_total))
__CPROVER_ensures((!wb_thrown && wb_g_slot < g_total) ==> SAMEL(__CPROVER_return_value.data[wb_g_slot], g_before))
__CPROVER_ensures((!wb_thrown && wb_g_slot < g_total && g_invel) ==>
                  (SAMEL(__CPROVER_return_value.data[g_veloff], g_v0) && SAMEL(__CPROVER_return_value.data[g_veloff + 1], g_v1)
                   && SAMEL(__CPROVER_return_value.data[g_veloff + 2], g_v2)))
;

#define X2D (point->e[0])
#define Z2D (point->e[1])
#define O0 (this_->cross_section.data[0].point.e[0])
#define O1 (this_->cross_section.data[0].point.e[1])
#define U0 (this_->surface_coord_conversions.point.e[0])
#define U1 (this_->surface_coord_conversions.point.e[1])
#define ANGLE FPX(atan2(Z2D, X2D))

struct vec_double World_properties_2d__contract(struct World *this_, struct arr_double_2 *point, double depth, struct vec_arr_uint_3 *properties)
/* the objects themselves (world, coordinate system, request of capacity MAXP) are typed objects built by the
 * harness below: byte-typed is_fresh objects made the same query 50x slower */
__CPROVER_requires(this_->dim == 2u ==> this_->cross_section.n == 2)
__CPROVER_requires(properties->n <= MAXP && g_total <= WB_CAP_vec_double)
__CPROVER_requires(g_world == this_ && g_props == (const void *)properties)
__CPROVER_requires(SAMEL(g_depth, depth))
__CPROVER_requires(g_n2c_calls == 0 && g_3d_calls == 0 && wb_thrown == 0)
__CPROVER_requires(LAYOUT_PRE(properties->data, properties->n))
__CPROVER_requires(LAYOUT_VALID(properties->data, properties->n))
__CPROVER_requires(LAYOUT_INVEL(properties->data, properties->n))
__CPROVER_requires(LAYOUT_VELOFF(properties->data, properties->n))
__CPROVER_requires(g_cs_kind == E_CoordinateSystem_cartesian || g_cs_kind == E_CoordinateSystem_spherical)
__CPROVER_assigns(wb_thrown, g_n2c_calls, g_3d_calls, g_n2c_in0, g_n2c_in1, g_n2c_in2, g_proj)
/* C09: refusal without cross section */
__CPROVER_ensures(this_->dim != 2u ==> wb_thrown)
/* C09: the 3D interface is evaluated exactly once at the image of (x,z) */
__CPROVER_ensures(!wb_thrown ==> (g_3d_calls == 1 && g_n2c_calls == 1))
__CPROVER_ensures((!wb_thrown && g_cs_kind == E_CoordinateSystem_cartesian) ==>
                  (SAME(g_n2c_in0, FPX(O0 + X2D * U0)) && SAME(g_n2c_in1, FPX(O1 + X2D * U1)) && SAMEL(g_n2c_in2, Z2D)))
__CPROVER_ensures((!wb_thrown && g_cs_kind == E_CoordinateSystem_spherical) ==>
                  (SAME(g_n2c_in0, FPX(sqrt(X2D * X2D + Z2D * Z2D))) && SAME(g_n2c_in1, FPX(O0 + ANGLE * U0)) && SAME(g_n2c_in2, FPX(O1 + ANGLE * U1))))
/* C01: same number of values, every slot outside velocity blocks bit-identical to the 3D answer */
__CPROVER_ensures(!wb_thrown ==> __CPROVER_return_value.n == g_total)
__CPROVER_ensures((!wb_thrown && wb_g_slot < g_total && !g_invel) ==> SAMEL(__CPROVER_return_value.data[wb_g_slot], g_before))
/* C09: velocity blocks become (in-section horizontal component, vertical component, 0) */
__CPROVER_ensures((!wb_thrown && wb_g_slot < g_total && g_invel && wb_g_slot == g_veloff) ==>
                  SAME(__CPROVER_return_value.data[wb_g_slot], FPX(U0 * g_v0 + U1 * g_v1)))
__CPROVER_ensures((!wb_thrown && wb_g_slot < g_total && g_invel && wb_g_slot == g_veloff + 1) ==>
                  SAMEL(__CPROVER_return_value.data[wb_g_slot], g_v2))
__CPROVER_ensures((!wb_thrown && wb_g_slot < g_total && g_invel && wb_g_slot == g_veloff + 2) ==>
                  __CPROVER_return_value.data[wb_g_slot] == 0.0)
;

void h_World_properties_2d(void)
{
  struct World w; struct CoordinateSystems_Interface cs; struct arr_double_2 pt; double depth;
  struct vec_arr_uint_3 pv;
  w.parameters.coordinate_system = &cs;
  spec_havoc_layout();
  HAVOC(g_world); HAVOC(g_props); HAVOC(g_depth); HAVOC(g_cs_kind); HAVOC(g_cart0); HAVOC(g_cart1); HAVOC(g_cart2);
  HAVOC(g_before); HAVOC(g_v0); HAVOC(g_v1); HAVOC(g_v2);
  World_properties_2d(&w, &pt, depth, &pv);
  REACHABLE();
}
