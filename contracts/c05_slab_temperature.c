/* C05: temperature models of slabs (SubductingPlate) and faults that are documented by a closed-form expression of the
 * distance from the plane d (slab: signed distance below the surface; fault: |distance| from the centre plane):
 *   outside [min distance, max distance] -> incoming temperature;  inside -> apply(operation, incoming, NEW)
 *     uniform   NEW = temperature
 *     adiabatic NEW = Tp * exp(((alpha * g) / cp) * depth)
 *     linear    NEW = T0 + (d - dmin) * ((T1 - T0) / (dmax - dmin)),  T0/T1 the top/bottom (slab) or centre/side (fault)
 *               temperature, negative meaning the adiabatic temperature at dmin / dmax.
 * -DFAM=SubductingPlate|Fault  -DIS_FAULT (fault)  -DKIND_UNIFORM|KIND_ADIABATIC|KIND_LINEAR
 */
#include "spec.h"
#define PASTE_(a, b) a##b
#define PASTE(a, b) PASTE_(a, b)
#define CAT3_(a, b, c) a##b##c
#define CAT3(a, b, c) CAT3_(a, b, c)
#if defined(KIND_UNIFORM)
#define MODEL Uniform
#elif defined(KIND_ADIABATIC)
#define MODEL Adiabatic
#elif defined(KIND_LINEAR)
#define MODEL Linear
#endif
#define MTYPE PASTE(CAT3(Features_, FAM, Models_Temperature_), MODEL)
#define MFUNC PASTE(MTYPE, _get_temperature)
#define MCONTRACT PASTE(MTYPE, _get_temperature__contract)
#include "gen.c"
#ifdef IS_FAULT
#define DIST __CPROVER_fabs(dist->distance_from_plane)
#define T0PARAM (this_->center_temperature)
#define T1PARAM (this_->side_temperature)
#else
#define DIST (dist->distance_from_plane)
#define T0PARAM (this_->top_temperature)
#define T1PARAM (this_->bottom_temperature)
#endif
#define INRANGE (DIST <= this_->max_depth && DIST >= this_->min_depth)
#define OP (this_->operation)
#define IS_REPLACE (OP == E_Operations_REPLACE || OP == E_Operations_REPLACE_DEFINED_ONLY)
#if defined(KIND_UNIFORM)
#define NEWT (this_->temperature)
#elif defined(KIND_ADIABATIC)
#define NEWT FPX(this_->potential_mantle_temperature * exp(((this_->thermal_expansion_coefficient * gravity_norm) / this_->specific_heat) * depth))
#elif defined(KIND_LINEAR)
#define WORLDP (this_->base_.world)
#define ADIAB(z) FPX(WORLDP->potential_mantle_temperature * exp(((WORLDP->thermal_expansion_coefficient * gravity_norm) / WORLDP->specific_heat) * z))
#define T0 (T0PARAM < 0.0 ? ADIAB(this_->min_depth) : T0PARAM)
#define T1 (T1PARAM < 0.0 ? ADIAB(this_->max_depth) : T1PARAM)
#define NEWT FPXA(T0 + (DIST - this_->min_depth) * ((T1 - T0) / (this_->max_depth - this_->min_depth)))
#endif

double MCONTRACT(struct MTYPE *this_, struct Point3 *position, double depth, double gravity_norm, double temperature_,
                 double feature_min_depth, double feature_max_depth, struct Utilities_PointDistanceFromCurvedPlanes *dist,
                 struct Features_FeatureUtilities_AdditionalParameters *additional_parameters)
__CPROVER_requires(OP == E_Operations_REPLACE || OP == E_Operations_ADD || OP == E_Operations_SUBTRACT || OP == E_Operations_REPLACE_DEFINED_ONLY)
__CPROVER_requires(wb_thrown == 0)
__CPROVER_assigns(wb_thrown)
__CPROVER_ensures((!wb_thrown && !INRANGE) ==> SAME(__CPROVER_return_value, temperature_))
__CPROVER_ensures((!wb_thrown && INRANGE && IS_REPLACE) ==> SAME(__CPROVER_return_value, NEWT))
__CPROVER_ensures((!wb_thrown && INRANGE && OP == E_Operations_ADD) ==> SAME(__CPROVER_return_value, FPXA(temperature_ + NEWT)))
__CPROVER_ensures((!wb_thrown && INRANGE && OP == E_Operations_SUBTRACT) ==> SAME(__CPROVER_return_value, FPXA(temperature_ - NEWT)))
;
void h_slab_temperature(void)
{
  struct MTYPE m; struct Point3 p; struct Utilities_PointDistanceFromCurvedPlanes d; struct Features_FeatureUtilities_AdditionalParameters ap;
  double depth, g, t, fmin, fmax;
#if defined(KIND_LINEAR)
  struct World w;
  m.base_.world = &w;
#endif
  MFUNC(&m, &p, depth, g, t, fmin, fmax, &d, &ap);
  REACHABLE();
}
