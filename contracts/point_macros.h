/* documented expressions of the Point<2> operators (macro-only header: included before the generated code) */
#ifndef POINT_MACROS_H
#define POINT_MACROS_H
static const double wb_zero = 0.0;
#define DOT2(ax, ay, bx, by) FPX(FPX(wb_zero + ax * bx) + ay * by)
#define SQ2(x, y) FPX(x * x + y * y)
#endif
