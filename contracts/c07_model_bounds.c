/* C07 (partial): "min/max pre-tests before local depth surfaces are evaluated" are pure optimisations only if the global
 * bounds a model tests first bracket every local value of its depth surfaces.  parse_entries of the area-feature models
 * (-DMTYPE=<model struct>, -DMFUNC=<its parse_entries>): afterwards either an exception is pending or
 *      min_depth == min_depth_surface.minimum   and   max_depth == max_depth_surface.maximum
 * (Objects::Surface computes minimum / maximum over its nodal values; the interpolated local value lies between them, C11).
 * Every callee (Parameters::get*, Objects::Surface constructor, ...) is an arbitrary-result body that may raise an exception
 * and writes nothing else (pipeline key auto_stubs). */
#include "spec.h"
#include "gen.c"
#define PASTE_(a, b) a##b
#define PASTE(a, b) PASTE_(a, b)
void PASTE(MFUNC, __contract)(struct MTYPE *this_, struct Parameters *prm, struct vec_Point2 *coordinates)
__CPROVER_requires(wb_thrown == 0)
__CPROVER_assigns(wb_thrown, *this_)
__CPROVER_ensures(!wb_thrown ==> (SAMEL(this_->min_depth, this_->min_depth_surface.minimum) && SAMEL(this_->max_depth, this_->max_depth_surface.maximum)))
;
#ifdef VEL3
/* the schema declares "velocity" as an array of exactly three numbers */
struct vec_double Parameters_get_vector__string__ret_double__contract(struct Parameters *this_, struct wb_string *name)
__CPROVER_requires(name->h == WB_STR("velocity").h) __CPROVER_assigns(wb_thrown) __CPROVER_ensures(IS_BOOL(wb_thrown) && __CPROVER_return_value.n == 3)
;
#endif
void h_model_bounds(void) { struct MTYPE m; struct Parameters prm; struct vec_Point2 c;
#ifdef NEED_WORLD
  struct World w; m.base_.world = &w;
#endif
  MFUNC(&m, &prm, &c); REACHABLE(); }
