/* C07 (partial): "min/max pre-tests before local depth surfaces are evaluated" are pure optimisations only if the global
 * bounds a model tests first bracket every local value of its depth surfaces.  parse_entries of the area-feature models
 * (-DMTYPE=<model struct>, -DMFUNC=<its parse_entries>): afterwards either an exception is pending or
 *      min_depth == min_depth_surface.minimum   and   max_depth == max_depth_surface.maximum
 * (Objects::Surface computes minimum / maximum over its nodal values; the interpolated local value lies between them, C11).
 * Every callee (Parameters::get*, Objects::Surface constructor, ...) is an arbitrary-result body that may raise an exception
 * and writes nothing else (pipeline key auto_stubs). */
#include "spec.h"
#include "gen.c"
#define PASTE_(a, b) a##b
#define PASTE(a, b) PASTE_(a, b)
#ifdef FEATURE_SIG
void PASTE(MFUNC, __contract)(struct MTYPE *this_, struct Parameters *prm)
#else
void PASTE(MFUNC, __contract)(struct MTYPE *this_, struct Parameters *prm, struct vec_Point2 *coordinates)
#endif
__CPROVER_requires(wb_thrown == 0)
#ifdef FEATURE_SIG
__CPROVER_assigns(wb_thrown, *this_, this_->base_.world->feature_tags)
#else
__CPROVER_assigns(wb_thrown, *this_)
#endif
__CPROVER_ensures(!wb_thrown ==> (SAMEL(this_->min_depth, this_->min_depth_surface.minimum) && SAMEL(this_->max_depth, this_->max_depth_surface.maximum)))
;
#ifdef FEATURE_SIG
/* the four model lists are out-parameters of Parameters::get_unique_pointers: any list within capacity */
#define CAT5_(a, b, c, d, e) a##b##c##d##e
#define CAT5(a, b, c, d, e) CAT5_(a, b, c, d, e)
#define GUP(K) CAT5(Parameters_get_unique_pointers__ret_Features_, FAMX, Models_, K, _Interface)
#define VECP(K) CAT5(vec_Features_, FAMX, Models_, K, _Interface_p)
#define CAPP(K) CAT5(WB_CAP_vec_Features_, FAMX, Models_, K, _Interface_p)
#define MODELS(K) \
_Bool PASTE(GUP(K), __contract)(struct Parameters *this_, struct wb_string *name, struct VECP(K) *vector) \
__CPROVER_requires(1) __CPROVER_assigns(wb_thrown, *vector) __CPROVER_ensures(IS_BOOL(wb_thrown) && vector->n <= CAPP(K)) \
;
MODELS(Temperature) MODELS(Composition) MODELS(Grains) MODELS(Velocity)
#endif
#ifdef VEL3
/* the schema declares "velocity" as an array of exactly three numbers */
struct vec_double Parameters_get_vector__string__ret_double__contract(struct Parameters *this_, struct wb_string *name)
__CPROVER_requires(name->h == WB_STR("velocity").h) __CPROVER_assigns(wb_thrown) __CPROVER_ensures(IS_BOOL(wb_thrown) && __CPROVER_return_value.n == 3)
;
#endif
void h_model_bounds(void) { struct MTYPE m; struct Parameters prm; struct vec_Point2 c;
#ifdef NEED_WORLD
  struct World w; m.base_.world = &w;
#endif
#ifdef FEATURE_SIG
  struct CoordinateSystems_Interface cs; prm.coordinate_system = &cs; MFUNC(&m, &prm);
#else
  MFUNC(&m, &prm, &c);
#endif
  REACHABLE(); }
