/* C05: smooth composition model of the subducting plate.
 *   outside [min distance slab top, max distance slab top] (distance from the slab surface) -> the incoming value
 *   inside, requested composition listed at first index j -> apply(operation, incoming, top[j]*S + bottom[j]*(1-S)) with
 *        S = (1 - tanh(10*(distance - side/2 - min distance)/side))/2     (side = |max distance - min distance|, set by parse_entries)
 *   inside, not listed: operation "replace" -> 0, any other operation -> the incoming value
 */
#include "spec.h"
#define MTYPE Features_SubductingPlateModels_Composition_Smooth
const void *g_model;
unsigned char g_listed; size_t g_first; unsigned int g_number;
#define MODEL ((struct MTYPE *)g_model)
#define NOT_EARLIER(k, dummy) ((size_t)(k) >= g_first || (size_t)(k) >= MODEL->compositions.n || MODEL->compositions.data[k] != g_number)
#define NOT_LISTED(k, dummy) ((size_t)(k) >= MODEL->compositions.n || MODEL->compositions.data[k] != g_number)
#include "gen.c"
#define DIST (dist->distance_from_plane)
#define INRANGE (DIST <= this_->max_distance && DIST >= this_->min_distance)
#define OP (this_->operation)
#define SCALING FPXA((1 - tanh(10 * (DIST - this_->side_distance / 2.0 - this_->min_distance) / this_->side_distance)) / 2.0)
#define VALUE FPXA(this_->top_fraction.data[g_first] * SCALING + this_->bottom_fraction.data[g_first] * (1 - SCALING))
double Features_SubductingPlateModels_Composition_Smooth_get_composition__contract(struct MTYPE *this_, struct Point3 *position, double depth, unsigned int composition_number,
    double composition, double feature_min_depth, double feature_max_depth, struct Utilities_PointDistanceFromCurvedPlanes *dist, struct Features_FeatureUtilities_AdditionalParameters *ap)
__CPROVER_requires(g_model == this_ && g_number == composition_number && wb_thrown == 0)
__CPROVER_requires(OP == E_Operations_REPLACE || OP == E_Operations_ADD || OP == E_Operations_SUBTRACT || OP == E_Operations_REPLACE_DEFINED_ONLY)
/* representation invariant (ASSUMED: parse_entries does not check it): one top and one bottom fraction per listed composition */
__CPROVER_requires(this_->compositions.n <= MAXP && this_->top_fraction.n == this_->compositions.n && this_->bottom_fraction.n == this_->compositions.n)
__CPROVER_requires(g_listed ? (g_first < this_->compositions.n && this_->compositions.data[g_first] == composition_number && FORALL_K(NOT_EARLIER, 0))
                            : FORALL_K(NOT_LISTED, 0))
__CPROVER_assigns(wb_thrown)
__CPROVER_ensures((!wb_thrown && !INRANGE) ==> SAME(__CPROVER_return_value, composition))
__CPROVER_ensures((!wb_thrown && INRANGE && !g_listed) ==> (OP == E_Operations_REPLACE ? __CPROVER_return_value == 0.0 : SAME(__CPROVER_return_value, composition)))
__CPROVER_ensures((!wb_thrown && INRANGE && g_listed && (OP == E_Operations_REPLACE || OP == E_Operations_REPLACE_DEFINED_ONLY)) ==> SAME(__CPROVER_return_value, VALUE))
__CPROVER_ensures((!wb_thrown && INRANGE && g_listed && OP == E_Operations_ADD) ==> SAME(__CPROVER_return_value, FPXA(composition + VALUE)))
__CPROVER_ensures((!wb_thrown && INRANGE && g_listed && OP == E_Operations_SUBTRACT) ==> SAME(__CPROVER_return_value, FPXA(composition - VALUE)))
;
void h_slab_smooth(void)
{
  struct MTYPE m; struct Point3 p; double depth, c, fmin, fmax; unsigned int number;
  struct Utilities_PointDistanceFromCurvedPlanes d; struct Features_FeatureUtilities_AdditionalParameters ap;
  HAVOC(g_model); HAVOC(g_listed); HAVOC(g_first); HAVOC(g_number);
  Features_SubductingPlateModels_Composition_Smooth_get_composition(&m, &p, depth, number, c, fmin, fmax, &d, &ap);
  REACHABLE();
}
