/* C02/C05: uniform composition model of the area features (-DFAM=<family>).
 *   outside the model's own depth range (global and local)      -> the incoming value
 *   inside, requested composition listed at first index j       -> apply(operation, incoming, fractions[j])
 *   inside, not listed: operation "replace"                     -> 0   (replace clears the compositions it does not list)
 *                       any other operation (replace defined only, add, subtract) -> the incoming value
 */
#include "spec.h"
#define PASTE_(a, b) a##b
#define PASTE(a, b) PASTE_(a, b)
#define CAT3_(a, b, c) a##b##c
#define CAT3(a, b, c) CAT3_(a, b, c)
#define MTYPE CAT3(Features_, FAM, Models_Composition_Uniform)
#define MFUNC PASTE(MTYPE, _get_composition)
#define MCONTRACT PASTE(MTYPE, _get_composition__contract)
const void *g_model;
double g_minl, g_maxl;
unsigned char g_listed;            /* the requested composition occurs in the model's list */
size_t g_first;                    /* first index where it occurs */
unsigned int g_number;
#define MODEL ((struct MTYPE *)g_model)
#define NOT_EARLIER(k, dummy) ((size_t)(k) >= g_first || (size_t)(k) >= MODEL->compositions.n || MODEL->compositions.data[k] != g_number)
#define NOT_LISTED(k, dummy) ((size_t)(k) >= MODEL->compositions.n || MODEL->compositions.data[k] != g_number)
#include "gen.c"

#if !defined(VARIANT_PLUME) && !defined(VARIANT_DIST)
struct Point2 Objects_NaturalCoordinate_get_surface_point__contract(struct Objects_NaturalCoordinate *this_)
__CPROVER_requires(1) __CPROVER_assigns() __CPROVER_ensures(1)
;
struct Objects_SurfaceValueInfo Objects_Surface_local_value__contract(struct Objects_Surface *this_, struct Point2 *check_point)
__CPROVER_requires(this_ == &MODEL->min_depth_surface || this_ == &MODEL->max_depth_surface)
__CPROVER_assigns(wb_thrown)
__CPROVER_ensures(IS_BOOL(wb_thrown))
__CPROVER_ensures(this_ == &MODEL->min_depth_surface ==> SAMEL(__CPROVER_return_value.interpolated_value, g_minl))
__CPROVER_ensures(this_ == &MODEL->max_depth_surface ==> SAMEL(__CPROVER_return_value.interpolated_value, g_maxl))
;
#define MINL (this_->min_depth_surface.constant_value ? this_->min_depth : g_minl)
#define MAXL (this_->max_depth_surface.constant_value ? this_->max_depth : g_maxl)
#define INRANGE (depth <= this_->max_depth && depth >= this_->min_depth && depth <= MAXL && depth >= MINL)
#define SURF_OK (IS_BOOL(this_->min_depth_surface.constant_value) && IS_BOOL(this_->max_depth_surface.constant_value))
#define MPARAMS struct MTYPE *this_, struct Point3 *position, struct Objects_NaturalCoordinate *nat, double depth, unsigned int composition_number, double composition, double feature_min_depth, double feature_max_depth
#elif defined(VARIANT_PLUME)
/* plume models have no depth surfaces: the range is [min depth, max depth] */
#define INRANGE (depth <= this_->max_depth && depth >= this_->min_depth)
#define SURF_OK 1
#define MPARAMS struct MTYPE *this_, struct Point3 *position, struct Objects_NaturalCoordinate *nat, double depth, unsigned int composition_number, double composition, double feature_min_depth, double feature_max_depth
#else
/* slab / fault models: the range is in the distance from the plane (fault: |distance| from the centre plane) */
#ifdef IS_FAULT
#define DIST __CPROVER_fabs(dist->distance_from_plane)
#else
#define DIST (dist->distance_from_plane)
#endif
#define INRANGE (DIST <= this_->max_depth && DIST >= this_->min_depth)
#define SURF_OK 1
#define MPARAMS struct MTYPE *this_, struct Point3 *position, double depth, unsigned int composition_number, double composition, double feature_min_depth, double feature_max_depth, struct Utilities_PointDistanceFromCurvedPlanes *dist, struct Features_FeatureUtilities_AdditionalParameters *additional_parameters
#endif
#define OP (this_->operation)

double MCONTRACT(MPARAMS)
__CPROVER_requires(g_model == this_ && g_number == composition_number && wb_thrown == 0)
__CPROVER_requires(SURF_OK)
__CPROVER_requires(OP == E_Operations_REPLACE || OP == E_Operations_ADD || OP == E_Operations_SUBTRACT || OP == E_Operations_REPLACE_DEFINED_ONLY)
/* representation invariant established by parse_entries: one fraction per listed composition */
__CPROVER_requires(this_->compositions.n <= MAXP && this_->fractions.n == this_->compositions.n)
__CPROVER_requires(g_listed ? (g_first < this_->compositions.n && this_->compositions.data[g_first] == composition_number && FORALL_K(NOT_EARLIER, 0))
                            : FORALL_K(NOT_LISTED, 0))
__CPROVER_assigns(wb_thrown)
__CPROVER_ensures((!wb_thrown && !INRANGE) ==> SAME(__CPROVER_return_value, composition))
__CPROVER_ensures((!wb_thrown && INRANGE && !g_listed) ==> (OP == E_Operations_REPLACE ? __CPROVER_return_value == 0.0 : SAME(__CPROVER_return_value, composition)))
__CPROVER_ensures((!wb_thrown && INRANGE && g_listed && (OP == E_Operations_REPLACE || OP == E_Operations_REPLACE_DEFINED_ONLY)) ==> SAME(__CPROVER_return_value, this_->fractions.data[g_first]))
__CPROVER_ensures((!wb_thrown && INRANGE && g_listed && OP == E_Operations_ADD) ==> SAME(__CPROVER_return_value, FPXA(composition + this_->fractions.data[g_first])))
__CPROVER_ensures((!wb_thrown && INRANGE && g_listed && OP == E_Operations_SUBTRACT) ==> SAME(__CPROVER_return_value, FPXA(composition - this_->fractions.data[g_first])))
;
void h_composition_uniform(void)
{
  struct MTYPE m; struct Point3 p; double depth, c, fmin, fmax; unsigned int number;
  HAVOC(g_model); HAVOC(g_minl); HAVOC(g_maxl); HAVOC(g_listed); HAVOC(g_first); HAVOC(g_number);
#if defined(VARIANT_DIST)
  struct Utilities_PointDistanceFromCurvedPlanes d; struct Features_FeatureUtilities_AdditionalParameters ap;
  MFUNC(&m, &p, depth, number, c, fmin, fmax, &d, &ap);
#else
  struct Objects_NaturalCoordinate nat;
  MFUNC(&m, &p, &nat, depth, number, c, fmin, fmax);
#endif
  REACHABLE();
}
