/* C03: the uniform gravity model answers the configured magnitude at every point and writes nothing */
#include "spec.h"
#include "gen.c"
double GravityModel_Uniform_gravity_norm__contract(struct GravityModel_Uniform *this_, struct Point3 unnamed_0)
__CPROVER_assigns()
__CPROVER_ensures(SAMEL(__CPROVER_return_value, this_->gravity_magnitude))
;
void h_GravityModel_Uniform_gravity_norm(void)
{
  struct GravityModel_Uniform g; struct Point3 p;
  GravityModel_Uniform_gravity_norm(&g, p);
  REACHABLE();
}
