/* C05: oceanic plate temperature model "plate model constant age":
 *   outside the model's own [min depth, max depth] (global value and local depth surface): the incoming temperature
 *   inside:  Tb = bottom temperature, or if negative the adiabat Tp*exp(((alpha*g)/cp)*depth);
 *            T_0 = Tt + (Tb - Tt) * (depth / max depth)
 *            T_i = T_(i-1) + (Tb - Tt) * ((2/(i*pi)) * sin((i*pi*depth)/max depth) * exp(-1*i*i*pi*pi*kappa*age/(max depth*max depth)))
 *            for i = 1 .. 100, in this order (per-iteration lemma spliced into the real loop; the loop invariant carries Tb and
 *            the trip count), result apply(operation, incoming, T_100)
 */
#include "spec.h"
const void *g_model_min_surface, *g_model_max_surface;
double g_minl, g_maxl;
double g_tb;                      /* ghost: the bottom temperature used (named once, before the loop) */
double g_final;                   /* ghost: the sum after the last iteration */
double g_prev;                    /* ghost: the sum before the current iteration */
int g_iters;                      /* ghost: number of terms added */
unsigned char g_inrange;
double g_di, g_expect;            /* ghost: (double)i of the current iteration; the documented value of the sum after it */
#define PCA_TT (this_->top_temperature)
#define PCA_MAXD (this_->max_depth)
#define PCA_INIT g_tb = bottom_temperature_local; g_inrange = 1; \
  __CPROVER_assert(SAME(temperature, FPXA(PCA_TT + (g_tb - PCA_TT) * (depth / PCA_MAXD))), "PCA-INIT the series starts from the linear profile Tt + (Tb - Tt) * depth / max depth"); \
  g_expect = temperature;
#define PCA_STEP g_di = (double)i; g_iters++; \
  g_expect = FPXA(temperature + (g_tb - PCA_TT) * ((2.0 / (g_di * G_Consts_PI)) * sin((g_di * G_Consts_PI * depth) / PCA_MAXD) * exp(-1.0 * g_di * g_di * G_Consts_PI * G_Consts_PI * thermal_diffusivity * this_->plate_age / (PCA_MAXD * PCA_MAXD))));
#define PCA_FINAL g_final = temperature;
#include "gen.c"
#define MTYPE Features_OceanicPlateModels_Temperature_PlateModelConstantAge
#define MFUNC Features_OceanicPlateModels_Temperature_PlateModelConstantAge_get_temperature

struct Point2 Objects_NaturalCoordinate_get_surface_point__contract(struct Objects_NaturalCoordinate *this_)
__CPROVER_requires(1) __CPROVER_assigns() __CPROVER_ensures(1)
;
struct Objects_SurfaceValueInfo Objects_Surface_local_value__contract(struct Objects_Surface *this_, struct Point2 *check_point)
__CPROVER_requires(this_ == g_model_min_surface || this_ == g_model_max_surface)
__CPROVER_assigns(wb_thrown)
__CPROVER_ensures(IS_BOOL(wb_thrown))
__CPROVER_ensures(this_ == g_model_min_surface ==> SAMEL(__CPROVER_return_value.interpolated_value, g_minl))
__CPROVER_ensures(this_ == g_model_max_surface ==> SAMEL(__CPROVER_return_value.interpolated_value, g_maxl))
;
#define MINL (this_->min_depth_surface.constant_value ? this_->min_depth : g_minl)
#define MAXL (this_->max_depth_surface.constant_value ? this_->max_depth : g_maxl)
#define INRANGE (depth <= this_->max_depth && depth >= this_->min_depth && depth <= MAXL && depth >= MINL)
#define OP (this_->operation)
#define IS_REPLACE (OP == E_Operations_REPLACE || OP == E_Operations_REPLACE_DEFINED_ONLY)
#define WORLDP (this_->base_.world)
#define TT (this_->top_temperature)
#define ADIAB FPX(WORLDP->potential_mantle_temperature * exp(((WORLDP->thermal_expansion_coefficient * gravity_norm) / WORLDP->specific_heat) * depth))
#define TB (this_->bottom_temperature < 0.0 ? ADIAB : this_->bottom_temperature)

double PCA__contract(struct MTYPE *this_, struct Point3 *position, struct Objects_NaturalCoordinate *natural, double depth,
                     double gravity_norm, double temperature_, double feature_min_depth, double feature_max_depth)
__CPROVER_requires(wb_thrown == 0 && g_iters == 0 && g_inrange == 0)
__CPROVER_requires(g_model_min_surface == &this_->min_depth_surface && g_model_max_surface == &this_->max_depth_surface)
__CPROVER_requires(IS_BOOL(this_->min_depth_surface.constant_value) && IS_BOOL(this_->max_depth_surface.constant_value))
__CPROVER_requires(OP == E_Operations_REPLACE || OP == E_Operations_ADD || OP == E_Operations_SUBTRACT || OP == E_Operations_REPLACE_DEFINED_ONLY)
__CPROVER_requires(__CPROVER_r_ok(WORLDP, sizeof(*WORLDP)))
__CPROVER_assigns(wb_thrown, g_tb, g_final, g_prev, g_iters, g_inrange, g_di, g_expect)
__CPROVER_ensures((!wb_thrown && !INRANGE) ==> (SAME(__CPROVER_return_value, temperature_) && g_iters == 0))
__CPROVER_ensures((!wb_thrown && INRANGE) ==> (g_iters == 100 && SAME(g_tb, TB)))
__CPROVER_ensures((!wb_thrown && INRANGE && IS_REPLACE) ==> SAME(__CPROVER_return_value, g_final))
__CPROVER_ensures((!wb_thrown && INRANGE && OP == E_Operations_ADD) ==> SAME(__CPROVER_return_value, FPXA(temperature_ + g_final)))
__CPROVER_ensures((!wb_thrown && INRANGE && OP == E_Operations_SUBTRACT) ==> SAME(__CPROVER_return_value, FPXA(temperature_ - g_final)))
;
void h_plate_constant_age(void)
{
  struct MTYPE m; struct World w; struct Point3 p; struct Objects_NaturalCoordinate n; double depth, g, t, fmin, fmax;
  m.base_.world = &w;
  HAVOC(g_minl); HAVOC(g_maxl);
  g_model_min_surface = &m.min_depth_surface; g_model_max_surface = &m.max_depth_surface;
  PCA(&m, &p, &n, depth, g, t, fmin, fmax);
  REACHABLE();
}
