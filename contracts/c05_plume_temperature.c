/* C05: plume temperature models.  uniform: inside [min depth, max depth] apply(operation, incoming, temperature), outside the incoming value. */
#include "spec.h"
#include "gen.c"
#define INRANGE (depth <= this_->max_depth && depth >= this_->min_depth)
#define OP (this_->operation)
#define IS_REPLACE (OP == E_Operations_REPLACE || OP == E_Operations_REPLACE_DEFINED_ONLY)
#define NEWT (this_->temperature)
double Features_PlumeModels_Temperature_Uniform_get_temperature__contract(struct Features_PlumeModels_Temperature_Uniform *this_, struct Point3 *position,
    struct Objects_NaturalCoordinate *nat, double depth, double gravity, double temperature_, double feature_min_depth, double feature_max_depth, double relative_distance_from_center)
__CPROVER_requires(OP == E_Operations_REPLACE || OP == E_Operations_ADD || OP == E_Operations_SUBTRACT || OP == E_Operations_REPLACE_DEFINED_ONLY)
__CPROVER_assigns()
__CPROVER_ensures(!INRANGE ==> SAME(__CPROVER_return_value, temperature_))
__CPROVER_ensures((INRANGE && IS_REPLACE) ==> SAME(__CPROVER_return_value, NEWT))
__CPROVER_ensures((INRANGE && OP == E_Operations_ADD) ==> SAME(__CPROVER_return_value, FPXA(temperature_ + NEWT)))
__CPROVER_ensures((INRANGE && OP == E_Operations_SUBTRACT) ==> SAME(__CPROVER_return_value, FPXA(temperature_ - NEWT)))
;
void h_plume_uniform(void) { struct Features_PlumeModels_Temperature_Uniform m; struct Point3 p; struct Objects_NaturalCoordinate nat; double d, g, t, a, b, r;
  Features_PlumeModels_Temperature_Uniform_get_temperature(&m, &p, &nat, d, g, t, a, b, r); REACHABLE(); }
