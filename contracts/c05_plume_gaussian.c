/* C05: Gaussian plume temperature.  Applies where feature min depth <= depth <= feature max depth and the normalised distance
 * from the plume centre is <= 1; there
 *     T = apply(operation, incoming, Tc * exp(-r / (2*sigma^2)))
 * with the centreline temperature Tc and sigma interpolated linearly between the two listed depths that bracket the query depth
 * (first / last entry above / below the list), and a negative Tc meaning the adiabatic temperature Tp*exp(((alpha*g)/cp)*depth).
 * Representation invariant: the three lists have the same length >= 1 (established by parse_entries, C12). */
#include "spec.h"
const void *g_model; double g_depth; size_t g_ub;
#define MODEL ((struct Features_PlumeModels_Temperature_Gaussian *)g_model)
#include "gen.c"
size_t wb_upper_bound_idx__contract(const double *d, size_t n, double v)
__CPROVER_requires(d == MODEL->depths.data && n == MODEL->depths.n && SAMEL(v, g_depth))
__CPROVER_assigns()
__CPROVER_ensures(__CPROVER_return_value == g_ub && g_ub <= n)
;
#define N (this_->depths.n)
#define D(k) (this_->depths.data[k])
#define CTL(k) (this_->center_temperatures.data[k])
#define SGL(k) (this_->gaussian_sigmas.data[k])
/* definitional chain: ghost cells named by requires (each expression tree once) */
struct { double f, ct0, sig, ad, nt; } g_v;
#define MID (g_ub > 0 && g_ub < N)
#define CT0 (g_ub == 0 ? CTL(0) : g_ub == N ? CTL(N - 1) : g_v.ct0)
#define SIG (g_ub == 0 ? SGL(0) : g_ub == N ? SGL(N - 1) : g_v.sig)
#define WORLD (this_->base_.world)
#define CT (CT0 < 0.0 ? g_v.ad : CT0)
#define NEWT g_v.nt
#define DEFS ((MID ==> (SAMEV(g_v.f, FPXA((depth - D(g_ub - 1)) / (D(g_ub) - D(g_ub - 1)))) && \
                       SAMEV(g_v.ct0, FPXA((1 - g_v.f) * CTL(g_ub - 1) + g_v.f * CTL(g_ub))) && SAMEV(g_v.sig, FPXA((1 - g_v.f) * SGL(g_ub - 1) + g_v.f * SGL(g_ub))))) && \
              SAMEV(g_v.ad, FPXA(WORLD->potential_mantle_temperature * exp(((WORLD->thermal_expansion_coefficient * gravity) / WORLD->specific_heat) * depth))) && \
              SAMEV(g_v.nt, FPXA(CT * exp(-relative_distance_from_center / (2. * wb_pow(SIG, 2))))))
#define INRANGE (depth <= feature_max_depth && depth >= feature_min_depth && relative_distance_from_center <= 1.0)
#define OP (this_->operation)
#define IS_REPLACE (OP == E_Operations_REPLACE || OP == E_Operations_REPLACE_DEFINED_ONLY)
double Features_PlumeModels_Temperature_Gaussian_get_temperature__contract(struct Features_PlumeModels_Temperature_Gaussian *this_, struct Point3 *position,
    struct Objects_NaturalCoordinate *nat, double depth, double gravity, double temperature_, double feature_min_depth, double feature_max_depth, double relative_distance_from_center)
__CPROVER_requires(g_model == this_ && SAMEL(g_depth, depth))
__CPROVER_requires(OP == E_Operations_REPLACE || OP == E_Operations_ADD || OP == E_Operations_SUBTRACT || OP == E_Operations_REPLACE_DEFINED_ONLY)
__CPROVER_requires(N >= 1 && N <= WB_CAP_vec_double && this_->center_temperatures.n == N && this_->gaussian_sigmas.n == N && g_ub <= N)
__CPROVER_requires(DEFS)
__CPROVER_assigns()
__CPROVER_ensures(!INRANGE ==> SAME(__CPROVER_return_value, temperature_))
__CPROVER_ensures((INRANGE && IS_REPLACE) ==> SAME(__CPROVER_return_value, NEWT))
__CPROVER_ensures((INRANGE && OP == E_Operations_ADD) ==> SAME(__CPROVER_return_value, FPXA(temperature_ + NEWT)))
__CPROVER_ensures((INRANGE && OP == E_Operations_SUBTRACT) ==> SAME(__CPROVER_return_value, FPXA(temperature_ - NEWT)))
;
void h_plume_gaussian(void) { struct World w; struct Features_PlumeModels_Temperature_Gaussian m; struct Point3 p; struct Objects_NaturalCoordinate nat; double d, g, t, a, b, r;
  m.base_.world = &w; HAVOC(g_model); HAVOC(g_depth); HAVOC(g_ub); HAVOC(g_v);
  Features_PlumeModels_Temperature_Gaussian_get_temperature(&m, &p, &nat, d, g, t, a, b, r); REACHABLE(); }
