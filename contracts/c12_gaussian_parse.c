/* C12 (partial): PlumeModels::Temperature::Gaussian::parse_entries - the three per-depth lists (depths, centerline
 * temperatures, gaussian sigmas) have the same length or the file is refused; get_temperature indexes all three by
 * the position found in `depths`. */
#include "spec.h"
unsigned long g_op;
#include "gen.c"
struct wb_string Parameters_get__string__ret_basic_string_char__contract(struct Parameters *this_, struct wb_string *name)
__CPROVER_requires(name->h == WB_STR("operation").h)
__CPROVER_assigns(wb_thrown) __CPROVER_ensures(IS_BOOL(wb_thrown) && __CPROVER_return_value.h == g_op)
;
struct vec_double Parameters_get_vector__string__ret_double__contract(struct Parameters *this_, struct wb_string *name)
__CPROVER_requires(name->h == WB_STR("depths").h || name->h == WB_STR("centerline temperatures").h || name->h == WB_STR("gaussian sigmas").h)
__CPROVER_assigns(wb_thrown)
__CPROVER_ensures(IS_BOOL(wb_thrown) && __CPROVER_return_value.n <= WB_CAP_vec_double)
;
void Features_PlumeModels_Temperature_Gaussian_parse_entries__contract(struct Features_PlumeModels_Temperature_Gaussian *this_, struct Parameters *prm)
__CPROVER_requires(wb_thrown == 0)
__CPROVER_assigns(wb_thrown, this_->operation, this_->depths, this_->center_temperatures, this_->gaussian_sigmas)
__CPROVER_ensures(!wb_thrown ==> (this_->center_temperatures.n == this_->depths.n && this_->gaussian_sigmas.n == this_->depths.n))
__CPROVER_ensures((!wb_thrown && g_op == WB_STR("add").h) ==> this_->operation == E_Operations_ADD)
__CPROVER_ensures((!wb_thrown && g_op == WB_STR("subtract").h) ==> this_->operation == E_Operations_SUBTRACT)
__CPROVER_ensures((!wb_thrown && g_op == WB_STR("replace").h) ==> this_->operation == E_Operations_REPLACE)
;
void h_gaussian_parse(void) { struct Features_PlumeModels_Temperature_Gaussian m; struct Parameters prm; HAVOC(g_op); Features_PlumeModels_Temperature_Gaussian_parse_entries(&m, &prm); REACHABLE(); }
