/* C12 (partial): unsupported option values are rejected by an exception and no enum field is left uninitialised.
 *  Spherical::parse_entries: Parameters::get<std::string>("depth method") may answer ANY schema-valid string;
 *  afterwards either an exception is pending or used_depth_method holds the enumerator of the recognised option. */
#include "spec.h"
unsigned long g_opt;               /* handle of the option string answered by the parameter file */
double g_radius;
#include "gen.c"
void Parameters_enter_subsection__contract(struct Parameters *this_, struct wb_string *name)
__CPROVER_requires(1) __CPROVER_assigns() __CPROVER_ensures(1)
;
void Parameters_leave_subsection__contract(struct Parameters *this_)
__CPROVER_requires(1) __CPROVER_assigns() __CPROVER_ensures(1)
;
struct wb_string Parameters_get_string__contract(struct Parameters *this_, struct wb_string *name)
__CPROVER_requires(name->h == WB_STR("depth method").h)
__CPROVER_assigns(wb_thrown)
__CPROVER_ensures(IS_BOOL(wb_thrown) && __CPROVER_return_value.h == g_opt)
;
double Parameters_get_double__contract(struct Parameters *this_, struct wb_string *name)
__CPROVER_requires(name->h == WB_STR("radius").h)
__CPROVER_assigns(wb_thrown)
__CPROVER_ensures(IS_BOOL(wb_thrown) && SAMEL(__CPROVER_return_value, g_radius))
;
#define IS_START (g_opt == WB_STR("starting point").h)
#define IS_BEGIN (g_opt == WB_STR("begin segment").h)
#define IS_BEGIN_END (g_opt == WB_STR("begin at end segment").h)
void Spherical_parse_entries__contract(struct CoordinateSystems_Spherical *this_, struct Parameters *prm)
__CPROVER_requires(wb_thrown == 0)
/* the field is uninitialised memory before parsing: any bit pattern */
__CPROVER_assigns(wb_thrown, this_->used_depth_method, this_->radius_sphere)
__CPROVER_ensures((!wb_thrown && IS_START) ==> this_->used_depth_method == E_DepthMethod_angle_at_starting_point_with_surface)
__CPROVER_ensures((!wb_thrown && IS_BEGIN) ==> this_->used_depth_method == E_DepthMethod_angle_at_begin_segment_with_surface)
__CPROVER_ensures((!wb_thrown && IS_BEGIN_END) ==> this_->used_depth_method == E_DepthMethod_angle_at_begin_segment_applied_to_end_segment_with_surface)
/* any other value (the schema also admits "continuous") is refused by an exception */
__CPROVER_ensures((!IS_START && !IS_BEGIN && !IS_BEGIN_END) ==> wb_thrown)
__CPROVER_ensures(!wb_thrown ==> SAMEL(this_->radius_sphere, g_radius))
;
void h_spherical_parse(void) { struct CoordinateSystems_Spherical s; struct Parameters prm; HAVOC(g_opt); HAVOC(g_radius); Spherical_parse_entries(&s, &prm); REACHABLE(); }
