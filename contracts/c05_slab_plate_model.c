/* C05: plate model of the subducting plate (McKenzie 1970).  With h = min(local thickness, max depth),
 *   R  = (rho*cp*(v/(365.25*24*60*60))*h) / (2*k),   z' = 1 - d/h,  x' = s/h   (d the distance from, s the distance along the slab
 *   surface; |d| resp. |s| below 2 eps is replaced by 2 eps *as the quotient*),  a = exp((alpha*g*depth)/cp) with adiabatic heating, else 1:
 *     S_0 = 0,  S_i = S_(i-1) + ((-1)^i/(i*pi)) * exp((R - (R*R + i*i*pi*pi)^0.5) * x') * sin(i*pi*z')      i = 1 .. 500
 *     T = a * (Tp + 2*(Tp - 273.15)*S_500),   result apply(operation, incoming, T)
 * inside min depth <= d <= max depth; outside: the incoming value.  R, z', x' are asserted before the real loop, each
 * iteration is checked against the documented term through the loop invariant, 500 iterations. */
#include "spec.h"
double g_di, g_ii, g_pw, g_expect, g_final, g_R, g_xs, g_zs, g_q; int g_iters;
#define MT Features_SubductingPlateModels_Temperature_PlateModel
#define DFP (distance_from_planes->distance_from_plane)
#define DAP (distance_from_planes->distance_along_plane)
#define THICK (this_->max_depth < additional_parameters->local_thickness ? this_->max_depth : additional_parameters->local_thickness)
#define TWO_EPS (2.0 * DBL_EPSILON)
#define SPM_INIT g_R = R; g_xs = x_scaled; g_zs = z_scaled; \
  __CPROVER_assert(SAME(R, FPXA((this_->density * this_->specific_heat * (this_->plate_velocity / (365.25 * 24.0 * 60.0 * 60.0)) * THICK) / (2.0 * this_->thermal_conductivity))), "SPM-R thermal Reynolds number"); \
  g_q = (__CPROVER_fabs(DFP) < TWO_EPS ? TWO_EPS : FPXA(DFP / THICK)); \
  __CPROVER_assert(SAME(z_scaled, FPXA(1.0 - g_q)), "SPM-Z scaled distance from the slab surface"); \
  __CPROVER_assert(SAME(x_scaled, (__CPROVER_fabs(DAP) < TWO_EPS ? TWO_EPS : FPXA(DAP / THICK))), "SPM-X scaled distance along the slab surface"); \
  __CPROVER_assert(sum == 0.0, "SPM-S0 the sum starts from zero"); \
  g_expect = sum;
#define SPM_STEP g_di = (double)i; g_ii = (double)(i * i); g_pw = wb_pow(-1.0, i); g_iters++; \
  g_expect = FPXA(sum + ((g_pw / (g_di * G_Consts_PI)) * exp((R - pow(R * R + g_ii * G_Consts_PI * G_Consts_PI, 0.5)) * x_scaled)) * sin(g_di * G_Consts_PI * z_scaled));
#define SPM_FINAL g_final = sum;
#include "gen.c"
#define INRANGE (DFP <= this_->max_depth && DFP >= this_->min_depth)
#define OP (this_->operation)
#define IS_REPLACE (OP == E_Operations_REPLACE || OP == E_Operations_REPLACE_DEFINED_ONLY)
#define TEMPF (this_->adiabatic_heating ? FPX(exp((this_->thermal_expansion_coefficient * gravity * depth) / this_->specific_heat)) : 1.0)
#define NEWT FPXA(TEMPF * (this_->potential_mantle_temperature + 2.0 * (this_->potential_mantle_temperature - 273.15) * g_final))
double SPM__contract(struct MT *this_, struct Point3 *position, double depth, double gravity, double temperature_, double feature_min_depth, double feature_max_depth,
                     struct Utilities_PointDistanceFromCurvedPlanes *distance_from_planes, struct Features_FeatureUtilities_AdditionalParameters *additional_parameters)
__CPROVER_requires(wb_thrown == 0 && g_iters == 0 && IS_BOOL(this_->adiabatic_heating))
__CPROVER_requires(OP == E_Operations_REPLACE || OP == E_Operations_ADD || OP == E_Operations_SUBTRACT || OP == E_Operations_REPLACE_DEFINED_ONLY)
__CPROVER_assigns(wb_thrown, g_di, g_ii, g_pw, g_expect, g_final, g_R, g_xs, g_zs, g_q, g_iters)
__CPROVER_ensures(wb_thrown == 0)
__CPROVER_ensures(!INRANGE ==> (SAME(__CPROVER_return_value, temperature_) && g_iters == 0))
__CPROVER_ensures(INRANGE ==> g_iters == 500)
__CPROVER_ensures((INRANGE && IS_REPLACE) ==> SAME(__CPROVER_return_value, NEWT))
__CPROVER_ensures((INRANGE && OP == E_Operations_ADD) ==> SAME(__CPROVER_return_value, FPXA(temperature_ + NEWT)))
__CPROVER_ensures((INRANGE && OP == E_Operations_SUBTRACT) ==> SAME(__CPROVER_return_value, FPXA(temperature_ - NEWT)))
;
void h_slab_plate_model(void)
{
  struct MT m; struct Point3 p; double d, g, t, a, b; struct Utilities_PointDistanceFromCurvedPlanes dist; struct Features_FeatureUtilities_AdditionalParameters ap;
  SPM(&m, &p, d, g, t, a, b, &dist, &ap);
  REACHABLE();
}
