/* World::parse_entries under contract (shared by C15, C03, C09).
 *  The parameter file is a set of ghost answers: Parameters::get<T>(key) answers g_<T>[slot of key] for the keys the
 *  schema declares (any value), check_entry("cross section") answers g_has_cs, ...  Postconditions, taken from the
 *  property statements:
 *   C15  the engine is reseeded from the "random number seed" entry: for every entry >= 0 (zero included) the engine
 *        state afterwards is that of seed (entry + MPI_RANK); a negative entry (the schema default -1) leaves the
 *        engine as the constructor seeded it.
 *   C03  each global constant of the background state holds the value of its own key.
 *   C09  dim is 2 exactly when a cross section is declared; the section points are the file's points in radians
 *        (spherical) or metres, and the direction is (second - first)/|second - first| as computed.
 */
unsigned long g_seeded_with; int g_seedings;   /* ghost: engine.seed(s) events */
#define WB_SEEDED(s) do { g_seeded_with = (s); g_seedings++; } while (0)
#include "spec.h"
enum { K_PMT, K_ST, K_TEC, K_SH, K_TD, K_MDBC, K_NDOUBLE };
struct { double v[K_NDOUBLE]; } g_dbl;
#define g_double g_dbl.v
//          /* answers of get<double> per key */
int g_seed_entry;                     /* answer of get<int>("random number seed") */
unsigned char g_force;                /* answer of get<bool>("force surface temperature") */
unsigned long g_interp, g_version;    /* answers of get<string> */
unsigned char g_has_cs;               /* check_entry("cross section") */
struct vec_Point2_ghost { double x[2], y[2]; size_t n; unsigned cs[2]; } g_csv;   /* answer of get_vector<Point<2>>("cross section") */
int g_natural;                        /* natural coordinate system of the parsed coordinate system */
#define DSLOT(hh_) ((hh_) == WB_STR("potential mantle temperature").h ? K_PMT : (hh_) == WB_STR("surface temperature").h ? K_ST : \
                  (hh_) == WB_STR("thermal expansion coefficient").h ? K_TEC : (hh_) == WB_STR("specific heat").h ? K_SH : \
                  (hh_) == WB_STR("thermal diffusivity").h ? K_TD : K_MDBC)
#define DKEY(hh_) ((hh_) == WB_STR("potential mantle temperature").h || (hh_) == WB_STR("surface temperature").h || \
                 (hh_) == WB_STR("thermal expansion coefficient").h || (hh_) == WB_STR("specific heat").h || \
                 (hh_) == WB_STR("thermal diffusivity").h || (hh_) == WB_STR("maximum distance between coordinates").h)
#include "gen.c"

double Parameters_get__string__ret_double__contract(struct Parameters *this_, struct wb_string *name)
__CPROVER_requires(DKEY(name->h))
__CPROVER_assigns(wb_thrown)
__CPROVER_ensures(IS_BOOL(wb_thrown) && SAMEL(__CPROVER_return_value, g_double[DSLOT(name->h)]))
;
_Bool Parameters_get__string__ret_bool__contract(struct Parameters *this_, struct wb_string *name)
__CPROVER_requires(name->h == WB_STR("force surface temperature").h)
__CPROVER_assigns(wb_thrown)
__CPROVER_ensures(IS_BOOL(wb_thrown) && __CPROVER_return_value == (g_force != 0))
;
int Parameters_get__string__ret_int__contract(struct Parameters *this_, struct wb_string *name)
__CPROVER_requires(name->h == WB_STR("random number seed").h)
__CPROVER_assigns(wb_thrown)
__CPROVER_ensures(IS_BOOL(wb_thrown) && __CPROVER_return_value == g_seed_entry)
;
struct wb_string Parameters_get__string__ret_basic_string_char__contract(struct Parameters *this_, struct wb_string *name)
__CPROVER_requires(name->h == WB_STR("version").h || name->h == WB_STR("interpolation").h)
__CPROVER_assigns(wb_thrown)
__CPROVER_ensures(IS_BOOL(wb_thrown) && __CPROVER_return_value.h == (name->h == WB_STR("version").h ? g_version : g_interp))
;
struct CoordinateSystems_Interface *Parameters_get_unique_pointer__ret_CoordinateSystems_Interface__contract(struct Parameters *this_, struct wb_string *name)
__CPROVER_requires(name->h == WB_STR("coordinate system").h)
__CPROVER_assigns(wb_thrown)
__CPROVER_ensures(IS_BOOL(wb_thrown))
;
struct GravityModel_Interface *Parameters_get_unique_pointer__ret_GravityModel_Interface__contract(struct Parameters *this_, struct wb_string *name)
__CPROVER_requires(name->h == WB_STR("gravity model").h)
__CPROVER_assigns(wb_thrown)
__CPROVER_ensures(IS_BOOL(wb_thrown))
;
_Bool Parameters_get_unique_pointers__ret_Features_Interface__contract(struct Parameters *this_, struct wb_string *name, struct vec_Features_Interface_p *vector)
__CPROVER_requires(name->h == WB_STR("features").h && vector == &this_->features)
__CPROVER_assigns(wb_thrown, __CPROVER_object_upto(vector, sizeof(*vector)))
__CPROVER_ensures(IS_BOOL(wb_thrown) && vector->n <= WB_CAP_vec_Features_Interface_p)
;
_Bool Parameters_check_entry__contract(struct Parameters *this_, struct wb_string *name)
__CPROVER_requires(name->h == WB_STR("cross section").h)
__CPROVER_assigns(wb_thrown)
__CPROVER_ensures(IS_BOOL(wb_thrown) && __CPROVER_return_value == (g_has_cs != 0))
;
struct vec_Point2 Parameters_get_vector__string__ret_Point_2__contract(struct Parameters *this_, struct wb_string *name)
__CPROVER_requires(name->h == WB_STR("cross section").h)
__CPROVER_assigns(wb_thrown)
__CPROVER_ensures(IS_BOOL(wb_thrown) && __CPROVER_return_value.n == g_csv.n)
/* JSON numbers are never NaN: value equality determines the bits up to the sign of zero, which SAME includes */
__CPROVER_ensures(SAME(__CPROVER_return_value.data[0].point.e[0], g_csv.x[0]) && SAME(__CPROVER_return_value.data[0].point.e[1], g_csv.y[0]))
__CPROVER_ensures(SAME(__CPROVER_return_value.data[1].point.e[0], g_csv.x[1]) && SAME(__CPROVER_return_value.data[1].point.e[1], g_csv.y[1]))
__CPROVER_ensures(__CPROVER_return_value.data[0].coordinate_system == g_csv.cs[0] && __CPROVER_return_value.data[1].coordinate_system == g_csv.cs[1])
;
void Parameters_enter_subsection__contract(struct Parameters *this_, struct wb_string *name)
__CPROVER_requires(1) __CPROVER_assigns(wb_thrown) __CPROVER_ensures(IS_BOOL(wb_thrown))
;
void Parameters_leave_subsection__contract(struct Parameters *this_)
__CPROVER_requires(1) __CPROVER_assigns(wb_thrown) __CPROVER_ensures(IS_BOOL(wb_thrown))
;
void CoordinateSystems_Interface_parse_entries__contract(struct CoordinateSystems_Interface *this_, struct Parameters *prm)
__CPROVER_requires(1) __CPROVER_assigns(wb_thrown) __CPROVER_ensures(IS_BOOL(wb_thrown))
;
void GravityModel_Interface_parse_entries__contract(struct GravityModel_Interface *this_, struct Parameters *prm)
__CPROVER_requires(1) __CPROVER_assigns(wb_thrown) __CPROVER_ensures(IS_BOOL(wb_thrown))
;
void Features_Interface_parse_entries__contract(struct Features_Interface *this_, struct Parameters *prm)
__CPROVER_requires(1) __CPROVER_assigns(wb_thrown) __CPROVER_ensures(IS_BOOL(wb_thrown))
;
enum enum_CoordinateSystem CoordinateSystems_Interface_natural_coordinate_system__contract(struct CoordinateSystems_Interface *this_)
__CPROVER_requires(1) __CPROVER_assigns(wb_thrown) __CPROVER_ensures(IS_BOOL(wb_thrown) && (int)__CPROVER_return_value == g_natural)
;

#define W this_
#define FACTOR (g_natural == (int)E_CoordinateSystem_spherical ? (G_Consts_PI / 180.0) : 1.0)
/* definitional chain (ghost cells defined by requires, each expression tree named once) */
struct { double cx[2], cy[2], dx, dy, n2, n, inv, ux, uy; } g_dir;
#define CSX(k) g_dir.cx[k]
#define CSY(k) g_dir.cy[k]
#define NEG1 ((double)(-1))
#define DIR_DEFS (SAMEV(g_dir.cx[0], FPXA(g_csv.x[0] * FACTOR)) && SAMEV(g_dir.cx[1], FPXA(g_csv.x[1] * FACTOR)) && \
                  SAMEV(g_dir.cy[0], FPXA(g_csv.y[0] * FACTOR)) && SAMEV(g_dir.cy[1], FPXA(g_csv.y[1] * FACTOR)) && \
                  SAMEV(g_dir.dx, FPXA(g_dir.cx[0] - g_dir.cx[1])) && SAMEV(g_dir.dy, FPXA(g_dir.cy[0] - g_dir.cy[1])) && \
                  SAMEV(g_dir.n2, FPXA(g_dir.dx * g_dir.dx + g_dir.dy * g_dir.dy)) && SAMEV(g_dir.n, FPXA(sqrt(g_dir.n2))) && \
                  SAMEV(g_dir.inv, FPXA(NEG1 / g_dir.n)) && SAMEV(g_dir.ux, FPXA(g_dir.dx * g_dir.inv)) && SAMEV(g_dir.uy, FPXA(g_dir.dy * g_dir.inv)))
void World_parse_entries__contract(struct World *this_, struct Parameters *prm)
__CPROVER_requires(wb_thrown == 0 && g_seedings == 0 && this_->cross_section.n == 0)
__CPROVER_requires(DIR_DEFS)
__CPROVER_requires(g_csv.x[0] == g_csv.x[0] && g_csv.x[1] == g_csv.x[1] && g_csv.y[0] == g_csv.y[0] && g_csv.y[1] == g_csv.y[1])
/* ASSUMPTION (unchecked): seed entry + MPI rank does not overflow int (UB otherwise: seed INT_MAX on rank >= 1) */
__CPROVER_requires(this_->MPI_RANK >= 0 && (long)g_seed_entry + this_->MPI_RANK <= 2147483647l)
__CPROVER_assigns(wb_thrown, g_seeded_with, g_seedings,
                  this_->dim, __CPROVER_object_upto(&this_->cross_section, sizeof(this_->cross_section)), __CPROVER_object_upto(&this_->surface_coord_conversions, sizeof(this_->surface_coord_conversions)),
                  this_->potential_mantle_temperature, this_->surface_temperature, this_->force_surface_temperature,
                  this_->thermal_expansion_coefficient, this_->specific_heat, this_->thermal_diffusivity,
                  this_->maximum_distance_between_coordinates, this_->interpolation, this_->random_number_engine.state,
                  prm->coordinate_system, prm->gravity_model, __CPROVER_object_upto(&prm->features, sizeof(prm->features)))
/* C15: seed wiring */
__CPROVER_ensures((!wb_thrown && g_seed_entry >= 0) ==> (g_seedings == 1 && g_seeded_with == (unsigned int)(g_seed_entry + this_->MPI_RANK)))
__CPROVER_ensures((!wb_thrown && g_seed_entry >= 0) ==> this_->random_number_engine.state == __CPROVER_uninterpreted_mt19937_state_of_seed((unsigned int)(g_seed_entry + this_->MPI_RANK)))
__CPROVER_ensures((!wb_thrown && g_seed_entry < 0) ==> (g_seedings == 0 && this_->random_number_engine.state == __CPROVER_old(this_->random_number_engine.state)))
/* C03: every global constant holds the value of its own key */
__CPROVER_ensures(!wb_thrown ==> (SAMEL(W->potential_mantle_temperature, g_double[K_PMT]) && SAMEL(W->surface_temperature, g_double[K_ST])))
__CPROVER_ensures(!wb_thrown ==> (SAMEL(W->thermal_expansion_coefficient, g_double[K_TEC]) && SAMEL(W->specific_heat, g_double[K_SH])))
__CPROVER_ensures(!wb_thrown ==> (SAMEL(W->thermal_diffusivity, g_double[K_TD]) && SAMEL(W->maximum_distance_between_coordinates, g_double[K_MDBC])))
__CPROVER_ensures(!wb_thrown ==> (W->force_surface_temperature == (g_force != 0) && W->interpolation.h == g_interp))
/* C09: the cross section */
__CPROVER_ensures(!wb_thrown ==> W->dim == (g_has_cs ? 2u : 3u))
__CPROVER_ensures((!wb_thrown && g_has_cs) ==> (g_csv.n == 2 && W->cross_section.n == 2))
__CPROVER_ensures((!wb_thrown && g_has_cs) ==> (SAMEL(W->cross_section.data[0].point.e[0], CSX(0)) && SAMEL(W->cross_section.data[0].point.e[1], CSY(0))))
__CPROVER_ensures((!wb_thrown && g_has_cs) ==> (SAMEL(W->cross_section.data[1].point.e[0], CSX(1)) && SAMEL(W->cross_section.data[1].point.e[1], CSY(1))))
__CPROVER_ensures((!wb_thrown && g_has_cs) ==> (SAMEL(W->surface_coord_conversions.point.e[0], g_dir.ux) && SAMEL(W->surface_coord_conversions.point.e[1], g_dir.uy)))
__CPROVER_ensures((!wb_thrown && !g_has_cs) ==> W->cross_section.n == 0)
;
void h_world_parse(void)
{
  struct World w; struct Parameters prm;
  HAVOC(g_dbl); HAVOC(g_seed_entry); HAVOC(g_force); HAVOC(g_interp); HAVOC(g_version); HAVOC(g_has_cs); HAVOC(g_csv); HAVOC(g_dir); HAVOC(g_natural);
  g_seedings = 0; HAVOC(g_seeded_with);
  World_parse_entries(&w, &prm);
  REACHABLE();
}
