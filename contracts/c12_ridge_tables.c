/* C12 (partial): oceanic plate temperature models with a ridge table (-DMODEL=HalfSpaceModel | PlateModel).
 *  parse_entries: "ridge coordinates" is any list of ridges (lists of points), "spreading velocity" any value list the
 *  schema admits.  Afterwards either an exception is pending or there is exactly one spreading velocity per ridge point
 *  (what calculate_ridge_distance_and_spreading indexes by, C05/ridge_distance) - and parse_entries itself reads the
 *  value list only inside its bounds (the "vector index within size" obligations of the translated code). */
#include "spec.h"
#define PASTE_(a, b) a##b
#define PASTE(a, b) PASTE_(a, b)
#define MT PASTE(Features_OceanicPlateModels_Temperature_, MODEL)
#define MFUNC PASTE(MT, _parse_entries)
#define MCONTRACT PASTE(MT, _parse_entries__contract)
size_t g_r;                               /* an arbitrary ridge */
struct vec_vec_Point2 g_ridges;           /* the ridge table of the file */
#define RN(k) ((size_t)(k) < g_ridges.n ? g_ridges.data[k].n : (size_t)0)
#define PRE(k) (((k) > 0 ? RN(0) : (size_t)0) + ((k) > 1 ? RN(1) : (size_t)0) + ((k) > 2 ? RN(2) : (size_t)0))
#define SV (this_->spreading_velocities_at_each_ridge_point)
#include "gen.c"
#define MAY_THROW() do { _Bool t_; if (t_) wb_thrown = 1; } while (0)
/* callees about which nothing is assumed but "may raise an exception, answers anything well-formed, writes nothing else" */
struct Objects_Surface Objects_Surface_ctor__pair_vector_double_vecto(struct pair_vec_double_vec_double values_at_points)
{ MAY_THROW(); struct Objects_Surface s; return s; }
struct pair_vec_double_vec_double Parameters_get__string_vector_Point_2(struct Parameters *this_, struct wb_string *name, struct vec_Point2 *addition_points)
{ MAY_THROW(); struct pair_vec_double_vec_double r; __CPROVER_assume(r.first.n <= WB_CAP_vec_double && r.second.n <= WB_CAP_vec_double); return r; }
struct wb_string Parameters_get__string__ret_basic_string_char(struct Parameters *this_, struct wb_string *name) { MAY_THROW(); struct wb_string r; return r; }
double Parameters_get__string__ret_double(struct Parameters *this_, struct wb_string *name) { MAY_THROW(); double r; return r; }
enum enum_CoordinateSystem CoordinateSystems_Interface_natural_coordinate_system(struct CoordinateSystems_Interface *this_) { enum enum_CoordinateSystem r; return r; }
/* the two tables: any lengths within the model bounds */
struct pair_vec_double_vec_double Parameters_get_value_at_array__contract(struct Parameters *this_, struct wb_string *name)
__CPROVER_requires(name->h == WB_STR("spreading velocity").h)
__CPROVER_assigns(wb_thrown)
__CPROVER_ensures(IS_BOOL(wb_thrown) && __CPROVER_return_value.first.n <= WB_CAP_vec_double && __CPROVER_return_value.second.n <= WB_CAP_vec_double)
;
struct vec_vec_Point2 Parameters_get_vector__string__ret_vector_Point_2__contract(struct Parameters *this_, struct wb_string *name)
__CPROVER_requires(name->h == WB_STR("ridge coordinates").h)
__CPROVER_assigns(wb_thrown)
__CPROVER_ensures(IS_BOOL(wb_thrown) && __CPROVER_return_value.n == g_ridges.n)
__CPROVER_ensures(__CPROVER_return_value.data[0].n == g_ridges.data[0].n && __CPROVER_return_value.data[1].n == g_ridges.data[1].n && __CPROVER_return_value.data[2].n == g_ridges.data[2].n)
;
void MCONTRACT(struct MT *this_, struct Parameters *prm, struct vec_Point2 *coordinates)
__CPROVER_requires(wb_thrown == 0 && SV.n == 0)
__CPROVER_requires(g_ridges.n <= WB_CAP_vec_vec_Point2 && g_ridges.n <= 3 && g_ridges.data[0].n <= WB_CAP_vec_Point2 && g_ridges.data[1].n <= WB_CAP_vec_Point2 && g_ridges.data[2].n <= WB_CAP_vec_Point2)
__CPROVER_assigns(wb_thrown, this_->min_depth, this_->min_depth_surface, this_->max_depth, this_->max_depth_surface, this_->top_temperature, this_->bottom_temperature,
                  this_->spreading_velocities, this_->mid_oceanic_ridges, this_->spreading_velocities_at_each_ridge_point, this_->operation)
/* one list of spreading velocities per ridge, one velocity per ridge point */
__CPROVER_ensures(!wb_thrown ==> (SV.n == g_ridges.n && this_->mid_oceanic_ridges.n == g_ridges.n))
__CPROVER_ensures((!wb_thrown && g_r < g_ridges.n) ==> (SV.data[g_r].n == g_ridges.data[g_r].n && this_->mid_oceanic_ridges.data[g_r].n == g_ridges.data[g_r].n))
;
void h_ridge_tables(void)
{
  struct MT m; struct Parameters prm; struct CoordinateSystems_Interface cs; struct vec_Point2 coords;
  prm.coordinate_system = &cs;
  HAVOC(g_r); HAVOC(g_ridges);
  MFUNC(&m, &prm, &coords);
  REACHABLE();
}
