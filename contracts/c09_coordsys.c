/* C09 (and C01/2D): the coordinate-system virtuals that the 2D entry point calls through contract stubs
 * (c01_2d.c) are here enforced on every concrete implementation, one unit each (-DUNIT_<name>):
 *   Cartesian: natural_coordinate_system() == cartesian; natural_to_cartesian / cartesian_to_natural return their
 *              argument bit for bit ("height z", no conversion)
 *   Spherical: natural_coordinate_system() == spherical; natural_to_cartesian(p) is
 *              Utilities::spherical_to_cartesian_coordinates(p) (formulas: C19/spherical_to_cartesian), and
 *              cartesian_to_natural(p) is Utilities::cartesian_to_spherical_coordinates(Point<3>(p, cartesian))
 *              (formulas: C19/cartesian_to_spherical) - argument forwarded once, answer returned slot for slot.
 */
#include "spec.h"
double g_in0, g_in1, g_in2;        /* ghost: the argument the conversion stub was called with */
double g_out0, g_out1, g_out2;     /* ghost: what the conversion stub answers (arbitrary, HAVOC'ed by the harness) */
int g_calls;
#include "gen.c"

#define ARR_IS(a, x, y, z) (SAMEL((a).e[0], x) && SAMEL((a).e[1], y) && SAMEL((a).e[2], z))

#ifdef UNIT_cartesian_kind
enum enum_CoordinateSystem CoordinateSystems_Cartesian_natural_coordinate_system__contract(struct CoordinateSystems_Cartesian *this_)
__CPROVER_requires(wb_thrown == 0)
__CPROVER_assigns()
__CPROVER_ensures(__CPROVER_return_value == E_CoordinateSystem_cartesian && wb_thrown == 0)
;
void h_cartesian_kind(void) { struct CoordinateSystems_Cartesian c; CoordinateSystems_Cartesian_natural_coordinate_system(&c); REACHABLE(); }
#endif

#ifdef UNIT_spherical_kind
enum enum_CoordinateSystem CoordinateSystems_Spherical_natural_coordinate_system__contract(struct CoordinateSystems_Spherical *this_)
__CPROVER_requires(wb_thrown == 0)
__CPROVER_assigns()
__CPROVER_ensures(__CPROVER_return_value == E_CoordinateSystem_spherical && wb_thrown == 0)
;
void h_spherical_kind(void) { struct CoordinateSystems_Spherical c; CoordinateSystems_Spherical_natural_coordinate_system(&c); REACHABLE(); }
#endif

#ifdef UNIT_cartesian_n2c
struct arr_double_3 CoordinateSystems_Cartesian_natural_to_cartesian_coordinates__contract(struct CoordinateSystems_Cartesian *this_, struct arr_double_3 *position)
__CPROVER_requires(wb_thrown == 0 && __CPROVER_r_ok(position, sizeof(*position)))
__CPROVER_assigns()
__CPROVER_ensures(ARR_IS(__CPROVER_return_value, position->e[0], position->e[1], position->e[2]) && wb_thrown == 0)
;
void h_cartesian_n2c(void) { struct CoordinateSystems_Cartesian c; struct arr_double_3 p; CoordinateSystems_Cartesian_natural_to_cartesian_coordinates(&c, &p); REACHABLE(); }
#endif

#ifdef UNIT_cartesian_c2n
struct arr_double_3 CoordinateSystems_Cartesian_cartesian_to_natural_coordinates__contract(struct CoordinateSystems_Cartesian *this_, struct arr_double_3 *position)
__CPROVER_requires(wb_thrown == 0 && __CPROVER_r_ok(position, sizeof(*position)))
__CPROVER_assigns()
__CPROVER_ensures(ARR_IS(__CPROVER_return_value, position->e[0], position->e[1], position->e[2]) && wb_thrown == 0)
;
void h_cartesian_c2n(void) { struct CoordinateSystems_Cartesian c; struct arr_double_3 p; CoordinateSystems_Cartesian_cartesian_to_natural_coordinates(&c, &p); REACHABLE(); }
#endif

#ifdef UNIT_spherical_n2c
struct Point3 Utilities_spherical_to_cartesian_coordinates__contract(struct arr_double_3 *scoord)
__CPROVER_requires(g_calls == 0 && __CPROVER_r_ok(scoord, sizeof(*scoord)))
__CPROVER_assigns(g_calls, g_in0, g_in1, g_in2)
__CPROVER_ensures(g_calls == 1 && ARR_IS(*scoord, g_in0, g_in1, g_in2))
__CPROVER_ensures(ARR_IS(__CPROVER_return_value.point, g_out0, g_out1, g_out2))
;
struct arr_double_3 CoordinateSystems_Spherical_natural_to_cartesian_coordinates__contract(struct CoordinateSystems_Spherical *this_, struct arr_double_3 *position)
__CPROVER_requires(g_calls == 0 && wb_thrown == 0 && __CPROVER_r_ok(position, sizeof(*position)))
__CPROVER_assigns(g_calls, g_in0, g_in1, g_in2)
__CPROVER_ensures(g_calls == 1 && wb_thrown == 0)
__CPROVER_ensures(ARR_IS(*position, g_in0, g_in1, g_in2))
__CPROVER_ensures(ARR_IS(__CPROVER_return_value, g_out0, g_out1, g_out2))
;
void h_spherical_n2c(void) { struct CoordinateSystems_Spherical c; struct arr_double_3 p;
  HAVOC(g_out0); HAVOC(g_out1); HAVOC(g_out2);
  CoordinateSystems_Spherical_natural_to_cartesian_coordinates(&c, &p); REACHABLE(); }
#endif

#ifdef UNIT_spherical_c2n
struct arr_double_3 Utilities_cartesian_to_spherical_coordinates__contract(struct Point3 *position)
__CPROVER_requires(g_calls == 0 && __CPROVER_r_ok(position, sizeof(*position)))
__CPROVER_requires(position->coordinate_system == E_CoordinateSystem_cartesian)
__CPROVER_assigns(g_calls, g_in0, g_in1, g_in2)
__CPROVER_ensures(g_calls == 1 && ARR_IS(position->point, g_in0, g_in1, g_in2))
__CPROVER_ensures(ARR_IS(__CPROVER_return_value, g_out0, g_out1, g_out2))
;
struct arr_double_3 CoordinateSystems_Spherical_cartesian_to_natural_coordinates__contract(struct CoordinateSystems_Spherical *this_, struct arr_double_3 *position)
__CPROVER_requires(g_calls == 0 && wb_thrown == 0 && __CPROVER_r_ok(position, sizeof(*position)))
__CPROVER_assigns(g_calls, g_in0, g_in1, g_in2)
__CPROVER_ensures(g_calls == 1 && wb_thrown == 0)
__CPROVER_ensures(ARR_IS(*position, g_in0, g_in1, g_in2))
__CPROVER_ensures(ARR_IS(__CPROVER_return_value, g_out0, g_out1, g_out2))
;
void h_spherical_c2n(void) { struct CoordinateSystems_Spherical c; struct arr_double_3 p;
  HAVOC(g_out0); HAVOC(g_out1); HAVOC(g_out2);
  CoordinateSystems_Spherical_cartesian_to_natural_coordinates(&c, &p); REACHABLE(); }
#endif
