/* C04: the footprint test is made on the surface point of the query's natural coordinate.  Units (-DUNIT_<name>):
 *   natural_ctor          : NaturalCoordinate(position, cs) stores cs.natural_coordinate_system() and
 *                           cs.cartesian_to_natural_coordinates(position) (argument forwarded, answer stored slot for slot)
 *   natural_surface_point : cartesian -> (c0, c1), spherical -> (c1, c2) = (longitude, latitude), labelled with the
 *                           system; any other system is refused by an exception
 *   natural_surface_coordinates : the same pair as std::array
 */
#include "spec.h"
double g_in0, g_in1, g_in2, g_out0, g_out1, g_out2;
int g_kind, g_c2n_calls, g_kind_calls;
const void *g_cs;
#include "gen.c"
#define ARR_IS(a, x, y, z) (SAMEL((a).e[0], x) && SAMEL((a).e[1], y) && SAMEL((a).e[2], z))
#define IS_BOOL(b) ((b) == 0 || (b) == 1)
#define CART E_CoordinateSystem_cartesian
#define SPH E_CoordinateSystem_spherical

#ifdef UNIT_natural_ctor
enum enum_CoordinateSystem CoordinateSystems_Interface_natural_coordinate_system__contract(struct CoordinateSystems_Interface *this_)
__CPROVER_requires((const void *)this_ == g_cs)
__CPROVER_assigns(g_kind_calls)
__CPROVER_ensures(g_kind_calls == __CPROVER_old(g_kind_calls) + 1 && (int)__CPROVER_return_value == g_kind)
;
struct arr_double_3 CoordinateSystems_Interface_cartesian_to_natural_coordinates__contract(struct CoordinateSystems_Interface *this_, struct arr_double_3 *position)
__CPROVER_requires((const void *)this_ == g_cs && g_c2n_calls == 0 && __CPROVER_r_ok(position, sizeof(*position)))
__CPROVER_assigns(g_c2n_calls, g_in0, g_in1, g_in2)
__CPROVER_ensures(g_c2n_calls == 1 && ARR_IS(*position, g_in0, g_in1, g_in2))
__CPROVER_ensures(ARR_IS(__CPROVER_return_value, g_out0, g_out1, g_out2))
;
struct Objects_NaturalCoordinate NATURAL_CTOR__contract(struct arr_double_3 *position, struct CoordinateSystems_Interface *coordinate_system_)
__CPROVER_requires((const void *)coordinate_system_ == g_cs && g_c2n_calls == 0 && g_kind_calls == 0 && wb_thrown == 0)
__CPROVER_requires(__CPROVER_r_ok(position, sizeof(*position)))
__CPROVER_requires(g_kind == CART || g_kind == SPH)
__CPROVER_assigns(g_c2n_calls, g_kind_calls, g_in0, g_in1, g_in2)
__CPROVER_ensures(wb_thrown == 0 && g_c2n_calls == 1 && g_kind_calls >= 1)
__CPROVER_ensures(ARR_IS(*position, g_in0, g_in1, g_in2))
__CPROVER_ensures((int)__CPROVER_return_value.coordinate_system == g_kind)
__CPROVER_ensures(ARR_IS(__CPROVER_return_value.coordinates, g_out0, g_out1, g_out2))
;
void h_natural_ctor(void) { struct CoordinateSystems_Interface cs; struct arr_double_3 p;
  HAVOC(g_out0); HAVOC(g_out1); HAVOC(g_out2); HAVOC(g_kind); g_cs = &cs;
  NATURAL_CTOR(&p, &cs); REACHABLE(); }
#endif

#ifdef UNIT_natural_surface_point
struct Point2 Objects_NaturalCoordinate_get_surface_point__contract(struct Objects_NaturalCoordinate *this_)
__CPROVER_requires(wb_thrown == 0 && __CPROVER_r_ok(this_, sizeof(*this_)))
__CPROVER_assigns(wb_thrown)
__CPROVER_ensures(IS_BOOL(wb_thrown) && (wb_thrown == 0) == (this_->coordinate_system == CART || this_->coordinate_system == SPH))
__CPROVER_ensures(this_->coordinate_system == CART ==> (SAMEL(__CPROVER_return_value.point.e[0], this_->coordinates.e[0]) && SAMEL(__CPROVER_return_value.point.e[1], this_->coordinates.e[1])))
__CPROVER_ensures(this_->coordinate_system == SPH ==> (SAMEL(__CPROVER_return_value.point.e[0], this_->coordinates.e[1]) && SAMEL(__CPROVER_return_value.point.e[1], this_->coordinates.e[2])))
__CPROVER_ensures(wb_thrown == 0 ==> __CPROVER_return_value.coordinate_system == this_->coordinate_system)
;
void h_natural_surface_point(void) { struct Objects_NaturalCoordinate n; Objects_NaturalCoordinate_get_surface_point(&n); REACHABLE(); }
#endif

#ifdef UNIT_natural_surface_coordinates
struct arr_double_2 Objects_NaturalCoordinate_get_surface_coordinates__contract(struct Objects_NaturalCoordinate *this_)
__CPROVER_requires(wb_thrown == 0 && __CPROVER_r_ok(this_, sizeof(*this_)))
__CPROVER_assigns(wb_thrown)
__CPROVER_ensures(IS_BOOL(wb_thrown) && (wb_thrown == 0) == (this_->coordinate_system == CART || this_->coordinate_system == SPH))
__CPROVER_ensures(this_->coordinate_system == CART ==> (SAMEL(__CPROVER_return_value.e[0], this_->coordinates.e[0]) && SAMEL(__CPROVER_return_value.e[1], this_->coordinates.e[1])))
__CPROVER_ensures(this_->coordinate_system == SPH ==> (SAMEL(__CPROVER_return_value.e[0], this_->coordinates.e[1]) && SAMEL(__CPROVER_return_value.e[1], this_->coordinates.e[2])))
;
void h_natural_surface_coordinates(void) { struct Objects_NaturalCoordinate n; Objects_NaturalCoordinate_get_surface_coordinates(&n); REACHABLE(); }
#endif
