/* Contracts of the small Point<2> operators, shared between the units that enforce them on the real code
 * (c04: point2_sub, point2_dot, point2_norm_square) and the units that call them (polygon kernel). */
#ifndef POINT_CONTRACTS_H
#define POINT_CONTRACTS_H

struct Point2 Point2_op_sub__contract(struct Point2 *this_, struct Point2 *point_right)
__CPROVER_assigns()
__CPROVER_ensures(SAMEV(__CPROVER_return_value.point.e[0], FPXA(this_->point.e[0] - point_right->point.e[0])))
__CPROVER_ensures(SAMEV(__CPROVER_return_value.point.e[1], FPXA(this_->point.e[1] - point_right->point.e[1])))
__CPROVER_ensures(__CPROVER_return_value.coordinate_system == this_->coordinate_system)
;
double Point2_dot__contract(struct Point2 *this_, struct Point2 *point_right)
__CPROVER_assigns()
__CPROVER_ensures(SAMEV(__CPROVER_return_value, DOT2(this_->point.e[0], this_->point.e[1], point_right->point.e[0], point_right->point.e[1])))
;
double Point2_norm_square__contract(struct Point2 *this_)
__CPROVER_assigns()
__CPROVER_ensures(SAMEV(__CPROVER_return_value, SQ2(this_->point.e[0], this_->point.e[1])))
;
#endif
