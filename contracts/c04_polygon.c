/* C04 / C19: point-in-polygon.
 *  polygon_contains_point_implementation computes the closed discrete winding number: over all edges V0->V1
 *     upward crossing (V0.y <= P.y < V1.y) with P strictly left of the edge   +1
 *     downward crossing (V0.y > P.y >= V1.y) with P strictly right            -1
 *     P on an edge it touches (|is_left| < eps, 0 <= (P-V0).(V1-V0) <= |V1-V0|^2), or P approx-equal to the end
 *     vertex of an edge that starts at or below P                             -> inside (boundary is inside)
 *  and answers  on_boundary || winding number != 0.   is_left = (V1.x-V0.x)(P.y-V0.y) - (P.x-V0.x)(V1.y-V0.y).
 *  polygon_contains_point: Cartesian -> implementation(P); spherical -> implementation(P) || implementation(P -/+ 2 pi)
 *  with the shift towards the other side of zero longitude.
 */
#include "spec.h"
unsigned char g_on;            /* ghost: P found on the boundary by the definition */
size_t g_up, g_down;           /* ghost: counted upward / downward crossings */
unsigned char g_ans1, g_ans2;  /* wrapper: what the implementation answers for P and for the shifted point */
double g_px, g_py; int g_calls; const void *g_list;
#include "point_macros.h"
#include "gen.c"
#if defined(UNIT_point2_sub) || defined(UNIT_point2_dot) || defined(UNIT_point2_norm_square) || defined(UNIT_polygon_impl)
#include "point_contracts.h"
#endif

#ifdef UNIT_point2_sub
void h_point2_sub(void) { struct Point2 a, b; Point2_op_sub(&a, &b); REACHABLE(); }
#endif
#ifdef UNIT_point2_dot
void h_point2_dot(void) { struct Point2 a, b; Point2_dot(&a, &b); REACHABLE(); }
#endif
#ifdef UNIT_point2_norm_square
void h_point2_norm_square(void) { struct Point2 a; Point2_norm_square(&a); REACHABLE(); }
#endif

#ifdef UNIT_polygon_impl
#define NOTNAN_V(k, n) ((size_t)(k) >= (size_t)(n) || (FINITE(point_list->data[k].point.e[0]) && FINITE(point_list->data[k].point.e[1])))
_Bool Utilities_polygon_contains_point_implementation__contract(struct vec_Point2 *point_list, struct Point2 *point)
__CPROVER_requires(point_list->n >= 3 && point_list->n <= MAXP)
/* type invariant of parsed coordinates and of query points: finite numbers */
__CPROVER_requires(FORALL_K(NOTNAN_V, point_list->n))
__CPROVER_requires(FINITE(point->point.e[0]) && FINITE(point->point.e[1]))
__CPROVER_requires(g_on == 0 && g_up == 0 && g_down == 0)
__CPROVER_assigns(g_on, g_up, g_down)
__CPROVER_ensures(__CPROVER_return_value == (g_on != 0 || g_up != g_down))
;
void h_polygon_impl(void) { struct vec_Point2 l; struct Point2 p; Utilities_polygon_contains_point_implementation(&l, &p); REACHABLE(); }
#endif

#ifdef UNIT_polygon_wrapper
#define LONSHIFT (g_px < 0.0 ? 2.0 * G_Consts_PI : -2.0 * G_Consts_PI)     /* towards the other side of zero longitude */
_Bool Utilities_polygon_contains_point_implementation__contract(struct vec_Point2 *point_list, struct Point2 *point)
__CPROVER_requires((const void *)point_list == g_list && g_calls < 2 && SAMEL(point->point.e[1], g_py))
__CPROVER_requires(g_calls == 0 ? SAMEL(point->point.e[0], g_px)
                   : SAME(point->point.e[0], FPXA(g_px + LONSHIFT)))
__CPROVER_assigns(g_calls)
__CPROVER_ensures(g_calls == __CPROVER_old(g_calls) + 1)
__CPROVER_ensures(__CPROVER_return_value == (g_calls == 1 ? (g_ans1 != 0) : (g_ans2 != 0)))
;
_Bool Utilities_polygon_contains_point__contract(struct vec_Point2 *point_list, struct Point2 *point)
__CPROVER_requires(g_calls == 0 && g_list == (const void *)point_list)
__CPROVER_requires(SAMEL(g_px, point->point.e[0]))
__CPROVER_requires(SAMEL(g_py, point->point.e[1]))
__CPROVER_assigns(g_calls)
__CPROVER_ensures(point->coordinate_system != E_CoordinateSystem_spherical ==> (g_calls == 1 && __CPROVER_return_value == (g_ans1 != 0)))
__CPROVER_ensures(point->coordinate_system == E_CoordinateSystem_spherical ==> (__CPROVER_return_value == (g_ans1 != 0 || g_ans2 != 0) && (g_ans1 != 0 || g_calls == 2)))
;
void h_polygon_wrapper(void) { struct vec_Point2 l; struct Point2 p; HAVOC(g_ans1); HAVOC(g_ans2); HAVOC(g_px); HAVOC(g_py); HAVOC(g_list);
  Utilities_polygon_contains_point(&l, &p); REACHABLE(); }
#endif

#ifdef UNIT_angle_across_zero
/* cyclic interpolation of the plume's rotation angle between two cross sections: the short way round, i.e. when the
 * two angles are more than pi apart the smaller one is taken one turn further; result wrapped into [0, 2 pi) */
#define FAR (__CPROVER_fabs(FPXA(angle_2 - angle_1)) > G_Consts_PI)
#define T1 ((FAR && angle_2 > angle_1) ? FPXA(angle_1 + 2.0 * G_Consts_PI) : angle_1)
#define T2 ((FAR && !(angle_2 > angle_1)) ? FPXA(angle_2 + 2.0 * G_Consts_PI) : angle_2)
#define ROT FPXA((1 - fraction) * T1 + fraction * T2)
double Utilities_interpolate_angle_across_zero__contract(double angle_1, double angle_2, double fraction)
__CPROVER_assigns()
__CPROVER_ensures(SAME(__CPROVER_return_value, FPXA(ROT - 2 * G_Consts_PI * floor(FPXA(ROT / (2 * G_Consts_PI))))))
;
void h_angle_across_zero(void) { double a, b, f; Utilities_interpolate_angle_across_zero(a, b, f); REACHABLE(); }
#endif

#ifdef UNIT_ellipse_fraction
/* plume membership test: normalised squared radius of `point` in the ellipse (centre, semi-major axis a, eccentricity e,
 * axis direction theta): (x'/a)^2 + (y'/b)^2 with (x',y') the offset rotated by theta and b = a*sqrt(1-e^2); a point
 * belongs to the ellipse iff the value is <= 1.  An ellipse without area (a or b below 10*DBL_MIN) contains no point:
 * the value reported for it must exceed 1 (the caller tests `<= 1`). */
#define XR FPXA((point->point.e[0] - ellipse_center->point.e[0]) * cos(theta) + (point->point.e[1] - ellipse_center->point.e[1]) * sin(theta))
#define YR FPXA(-(point->point.e[0] - ellipse_center->point.e[0]) * sin(theta) + (point->point.e[1] - ellipse_center->point.e[1]) * cos(theta))
#define SEMI_MINOR FPXA(semi_major_axis * sqrt(1 - wb_pow(eccentricity, 2)))
#define DEGENERATE (semi_major_axis < 10.0 * DBL_MIN || SEMI_MINOR < 10.0 * DBL_MIN)
double Utilities_fraction_from_ellipse_center__contract(struct Point2 *ellipse_center, double semi_major_axis, double eccentricity, double theta, struct Point2 *point)
__CPROVER_assigns()
__CPROVER_ensures(DEGENERATE ==> __CPROVER_return_value > 1.0)
__CPROVER_ensures(!DEGENERATE ==> SAME(__CPROVER_return_value, FPXA(wb_pow(XR, 2) / wb_pow(semi_major_axis, 2) + wb_pow(YR, 2) / wb_pow(SEMI_MINOR, 2))))
;
void h_ellipse_fraction(void) { struct Point2 c, p; double a, e, t; Utilities_fraction_from_ellipse_center(&c, a, e, t, &p); REACHABLE(); }
#endif
