/* C05: "half-space cooling and plate cooling from ridge distance over spreading velocity" - the ridge look-up
 *  Utilities::calculate_ridge_distance_and_spreading that feeds both models (and the mass-conserving slab).
 *   RIDGE-LEMMA (ghost assertion inside the segment loop, for every iteration): for the query point and for its
 *     +-360 degree copy alike, the candidate on the segment follows the clamp/interpolate rule of its own foot-point
 *     parameter t = c_K/c: t <= 0 -> values of the first end point, t >= 1 -> values of the second end point,
 *     otherwise position p0 + t*v, spreading velocity s0 + (s1-s0)*t and subducting velocity u0 + (u1-u0)*t with
 *     the SAME t.
 *   postconditions: four results in the documented order (spreading velocity in m/s, distance, subducting velocity
 *     in m/s, migration time); the distance is no larger than either candidate distance of an arbitrary segment g_k
 *     of the relevant ridge (distances are the answers of the coordinate system, any non-negative value).
 */
#include "spec.h"
int g_nat;                                  /* natural coordinate system of the world */
unsigned int g_k; _Bool g_seen; double g_cdk1, g_cdk2;   /* ghost: candidate distances of segment g_k */
unsigned long g_nseg; double g_fvs, g_fd, g_fvt, g_fmt;  /* ghost: number of segments, values before packaging */
#define SECONDS 31557600.0
#define LERP(a0, a1, cK) FPXA(a0 + (a1 - a0) * (cK / c))
#define FOOT(i, cK) FPXA(segment_point0.point.e[i] + FPXA(v.point.e[i] * FPXA(cK / c)))
#define CAND_OK(cK, P, s, u) \
  ((cK) <= 0.0 ? (SAMEL(s, spreading_velocity_point0) && SAMEL(u, subducting_velocity_point0) && SAMEL(P.point.e[0], segment_point0.point.e[0]) && SAMEL(P.point.e[1], segment_point0.point.e[1])) \
   : c <= (cK) ? (SAMEL(s, spreading_velocity_point1) && SAMEL(u, subducting_velocity_point1) && SAMEL(P.point.e[0], segment_point1.point.e[0]) && SAMEL(P.point.e[1], segment_point1.point.e[1])) \
   : (SAMEV(s, LERP(spreading_velocity_point0, spreading_velocity_point1, cK)) && SAMEV(u, LERP(subducting_velocity_point0, subducting_velocity_point1, cK)) && \
      SAMEV(P.point.e[0], FOOT(0, cK)) && SAMEV(P.point.e[1], FOOT(1, cK))))
#define RIDGE_LEMMA \
  __CPROVER_assert(CAND_OK(c1, Pb1, spreading_velocity_at_ridge_pt1, subducting_velocity_at_trench_pt1), "RIDGE-LEMMA candidate of the query point follows the clamp/interpolate rule of its own foot-point parameter"); \
  __CPROVER_assert(CAND_OK(c2, Pb2, spreading_velocity_at_ridge_pt2, subducting_velocity_at_trench_pt2), "RIDGE-LEMMA candidate of the wrapped query point follows the clamp/interpolate rule of its own foot-point parameter"); \
  if (i_coordinate == g_k) { g_seen = 1; g_cdk1 = compare_distance1; g_cdk2 = compare_distance2; }
#define RIDGE_NSEG g_nseg = mid_oceanic_ridges.data[relevant_ridge].n - 1ul;
#define RIDGE_FINAL g_fvs = spreading_velocity_at_ridge; g_fd = distance_ridge; g_fvt = subducting_velocity_at_trench; g_fmt = ridge_migration_time;
#include "gen.c"

/* assumed contracts of the coordinate system (virtual): a pure natural_coordinate_system, distances are non-negative numbers */
enum enum_CoordinateSystem CoordinateSystems_Interface_natural_coordinate_system(struct CoordinateSystems_Interface *this_) { return (enum enum_CoordinateSystem)g_nat; }
double CoordinateSystems_Interface_distance_between_points_at_same_depth(struct CoordinateSystems_Interface *this_, struct Point3 *point_1, struct Point3 *point_2)
{ double r; __CPROVER_assume(r >= 0.0); return r; }

#define R mid_oceanic_ridges
#define S mid_oceanic_spreading_velocities
#define U (*subducting_plate_velocities)
#define SHAPE(k) ((k) >= R.n || (R.data[k].n >= 1 && R.data[k].n <= WB_CAP_vec_Point2 && R.data[k].n <= WB_CAP_vec_double && S.data[k].n == R.data[k].n))
#define USHAPE(k) ((k) >= R.n || U.data[k].n == R.data[k].n)
struct vec_double Utilities_calculate_ridge_distance_and_spreading__contract(struct vec_vec_Point2 mid_oceanic_ridges, struct vec_vec_double mid_oceanic_spreading_velocities,
    struct CoordinateSystems_Interface **coordinate_system, struct Objects_NaturalCoordinate *position_in_natural_coordinates_at_min_depth,
    struct vec_vec_double *subducting_plate_velocities, struct vec_double *ridge_migration_times)
__CPROVER_requires(wb_thrown == 0 && g_seen == 0)
__CPROVER_requires(g_nat == (int)E_CoordinateSystem_cartesian || g_nat == (int)E_CoordinateSystem_spherical)
/* representation invariant established by the callers' parse_entries (assumed here): at least one ridge, every ridge
 * has a point, one spreading velocity per ridge point; subducting velocities: one value, or one per ridge point
 * together with one migration time per ridge */
__CPROVER_requires(R.n >= 1 && R.n <= WB_CAP_vec_vec_Point2 && S.n == R.n && SHAPE(0) && SHAPE(1) && SHAPE(2))
__CPROVER_requires(U.n >= 1 && U.n <= WB_CAP_vec_vec_double && U.data[0].n >= 1 && U.data[0].n <= WB_CAP_vec_double && R.n <= 3)
__CPROVER_requires(U.data[0].n > 1 ==> (U.n == R.n && USHAPE(0) && USHAPE(1) && USHAPE(2) && ridge_migration_times->n == R.n))
__CPROVER_assigns(wb_thrown, g_seen, g_cdk1, g_cdk2, g_nseg, g_fvs, g_fd, g_fvt, g_fmt)
__CPROVER_ensures(!wb_thrown ==> __CPROVER_return_value.n == 4)
__CPROVER_ensures(!wb_thrown ==> (SAMEV(__CPROVER_return_value.data[0], FPXA(g_fvs / SECONDS)) && SAMEL(__CPROVER_return_value.data[1], g_fd)))
__CPROVER_ensures(!wb_thrown ==> (SAMEV(__CPROVER_return_value.data[2], FPXA(g_fvt / SECONDS)) && SAMEL(__CPROVER_return_value.data[3], g_fmt)))
/* nearest: no candidate of any segment of the relevant ridge is closer than the reported distance */
__CPROVER_ensures(!wb_thrown ==> (g_seen == ((unsigned long)g_k < g_nseg)))
__CPROVER_ensures((!wb_thrown && g_seen) ==> (g_fd <= g_cdk1 && g_fd <= g_cdk2))
;
void h_ridge(void)
{
  struct vec_vec_Point2 ridges; struct vec_vec_double sv, uv; struct vec_double mt; struct CoordinateSystems_Interface cs, *csp = &cs; struct Objects_NaturalCoordinate nat;
  HAVOC(g_nat); HAVOC(g_k); g_seen = 0; HAVOC(g_cdk1); HAVOC(g_cdk2); HAVOC(g_nseg);
  Utilities_calculate_ridge_distance_and_spreading(ridges, sv, &csp, &nat, &uv, &mt);
  REACHABLE();
}
