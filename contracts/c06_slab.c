/* C06 / C07 / C10 (partial): SubductingPlate::properties, observed through the tag it writes.
 *  The distances (from, along), the section/segment and their fractions are what
 *  Utilities::distance_point_from_curved_planes answers (NOT under contract: 650 lines of trigonometry; its result
 *  is an arbitrary value with in-range indices).  Given that answer:
 *   C06  the slab contains the point - writes its tag - iff   top truncation <= from <= thickness  and
 *        0 <= along <= total length  (local, interpolated values) and min depth <= depth <= max depth;
 *   C10  thickness, top truncation and length are interpolated only between the two sections adjacent to the
 *        point: v[cur] + section_fraction * (v[cur+1] - v[cur]) (thickness additionally along the segment between
 *        its top and bottom value);
 *   C07  the pre-tests are sound: the distance function is consulted for every point with
 *        min depth <= depth <= max depth, depth <= (min depth + maximum total length) + maximum thickness (a slab
 *        that starts at min depth cannot reach deeper: assumed geometric lemma) and inside the buffered bounding box.
 *  Requests consisting of tag entries only (the model loops are then unreachable and carry trivial invariants).
 */
#include "spec.h"
const void *g_feature;
unsigned char g_inbox;                 /* answer of the bounding box test */
int g_dist_calls;
double g_from, g_along, g_sf, g_gf; size_t g_sec, g_seg;   /* answer of the distance function */
double g_depthcoord, g_depth, g_start_radius;
size_t g_blk; double g_before;
const struct vec_arr_uint_3 *g_reqp;
#define REQ(k) (g_reqp->data[k])
#define IN_BLK (wb_g_slot < g_total)
#define ENTRY_OK(k, n) ((size_t)(k) >= (size_t)(n) || (entry_in_output->data[k] == g_pre[k] && REQ(k).e[0] == 4u))
#include "gen.c"
#define FEAT ((struct Features_SubductingPlate *)g_feature)

double Objects_NaturalCoordinate_get_depth_coordinate__contract(struct Objects_NaturalCoordinate *this_)
__CPROVER_requires(1) __CPROVER_assigns() __CPROVER_ensures(SAMEL(__CPROVER_return_value, g_depthcoord))
;
struct arr_double_2 Objects_NaturalCoordinate_get_surface_coordinates__contract(struct Objects_NaturalCoordinate *this_)
__CPROVER_requires(1) __CPROVER_assigns() __CPROVER_ensures(1)
;
enum enum_CoordinateSystem CoordinateSystems_Interface_natural_coordinate_system__contract(struct CoordinateSystems_Interface *this_)
__CPROVER_requires(1) __CPROVER_assigns() __CPROVER_ensures(1)
;
_Bool BoundingBox2_point_inside__contract(struct BoundingBox2 *this_, struct Point2 *point, double tolerance)
__CPROVER_requires(this_ == &FEAT->surface_bounding_box)
__CPROVER_assigns()
__CPROVER_ensures(__CPROVER_return_value == (g_inbox != 0))
;
/* assumed interface contract of the unverified callee: any distances, indices within the feature's tables */
struct Utilities_PointDistanceFromCurvedPlanes Utilities_distance_point_from_curved_planes__contract(struct Point3 *check_point,
    struct Objects_NaturalCoordinate *check_point_natural, struct Point2 *reference_point, struct vec_Point2 *point_list,
    struct vec_vec_double *plane_segment_lengths, struct vec_vec_Point2 *plane_segment_angles, double start_radius,
    struct CoordinateSystems_Interface * *coordinate_system, _Bool only_positive, struct Objects_BezierCurve *bezier_curve)
__CPROVER_requires(g_dist_calls == 0 && reference_point == &FEAT->reference_point && point_list == &FEAT->base_.coordinates
                   && plane_segment_lengths == &FEAT->slab_segment_lengths && plane_segment_angles == &FEAT->slab_segment_angles
                   && bezier_curve == &FEAT->base_.bezier_curve && only_positive == 0)
/* the surface starts at the feature's min depth: start radius = depth coordinate + depth - min depth */
__CPROVER_requires(SAME(start_radius, (g_depthcoord + g_depth) - FEAT->starting_depth))
__CPROVER_assigns(g_dist_calls, wb_thrown)
__CPROVER_ensures(g_dist_calls == 1 && IS_BOOL(wb_thrown))
__CPROVER_ensures(SAMEL(__CPROVER_return_value.distance_from_plane, g_from) && SAMEL(__CPROVER_return_value.distance_along_plane, g_along)
                  && SAMEL(__CPROVER_return_value.fraction_of_section, g_sf) && SAMEL(__CPROVER_return_value.fraction_of_segment, g_gf)
                  && __CPROVER_return_value.section == g_sec && __CPROVER_return_value.segment == g_seg)
;

#define CUR g_sec
#define NXT (g_sec + 1)
#define TH(s, c) (this_->slab_segment_thickness.data[s].data[g_seg].point.e[c])
#define TT(s, c) (this_->slab_segment_top_truncation.data[s].data[g_seg].point.e[c])
#define TL(s) (this_->total_slab_length.data[s])
#define TH_UP FPX(TH(CUR, 0) + g_sf * (TH(NXT, 0) - TH(CUR, 0)))
#define TH_DN FPX(TH(CUR, 1) + g_sf * (TH(NXT, 1) - TH(CUR, 1)))
#define TH_LOCAL FPX(TH_UP + g_gf * (TH_DN - TH_UP))
#define TT_UP FPX(TT(CUR, 0) + g_sf * (TT(NXT, 0) - TT(CUR, 0)))
#define TT_DN FPX(TT(CUR, 1) + g_sf * (TT(NXT, 1) - TT(CUR, 1)))
#define TT_LOCAL FPX(TT_UP + g_gf * (TT_DN - TT_UP))
#define LEN_LOCAL FPX(TL(CUR) + g_sf * (TL(NXT) - TL(CUR)))
#define HIT (__CPROVER_fabs(g_from) < WB_INFINITY || g_along < WB_INFINITY)
#define MEMBER (HIT && !(__CPROVER_fabs(TH_LOCAL) < 2.0 * DBL_EPSILON) && !(TH_LOCAL < TT_LOCAL) && g_from >= TT_LOCAL && g_from <= TH_LOCAL && g_along >= 0.0 && g_along <= LEN_LOCAL)
/* the pre-tests as the code makes them, and the weakest sound form of the depth cut-off */
#define SOUND_PRE (depth <= this_->maximum_depth && depth >= this_->starting_depth && g_inbox \
                   && depth <= (this_->starting_depth + this_->maximum_total_slab_length) + this_->maximum_slab_thickness)

void Features_SubductingPlate_properties__contract(struct Features_SubductingPlate *this_, struct Point3 *position, struct Objects_NaturalCoordinate *nat,
    double depth, struct vec_arr_uint_3 *properties, double gravity_norm, struct vec_ulong *entry_in_output, struct vec_double *output)
__CPROVER_requires(g_feature == this_ && g_reqp == properties && wb_thrown == 0 && g_dist_calls == 0)
__CPROVER_requires(SAMEL(g_depth, depth))
__CPROVER_requires(properties->n <= MAXP && entry_in_output->n == properties->n && output->n == g_total && g_total <= WB_CAP_vec_double)
__CPROVER_requires(LAYOUT_PRE(properties->data, properties->n))
__CPROVER_requires(FORALL_K(ENTRY_OK, properties->n))
__CPROVER_requires(IN_BLK ==> (g_blk < properties->n && g_pre[g_blk] <= wb_g_slot && wb_g_slot < g_pre[g_blk + 1]))
__CPROVER_requires(IN_BLK ==> SAMEL(g_before, output->data[wb_g_slot]))
/* representation invariant of a parsed slab + range of the callee's indices: one table row per section, one entry per segment */
__CPROVER_requires(this_->total_slab_length.n >= 2 && g_sec < this_->total_slab_length.n - 1 && this_->total_slab_length.n <= WB_VEC_CAP
                   && this_->slab_segment_thickness.n == this_->total_slab_length.n && this_->slab_segment_top_truncation.n == this_->total_slab_length.n
                   && this_->segment_vector.n == this_->total_slab_length.n)
__CPROVER_requires(g_seg < this_->slab_segment_thickness.data[g_sec].n && g_seg < this_->slab_segment_thickness.data[g_sec + 1].n
                   && g_seg < this_->slab_segment_top_truncation.data[g_sec].n && g_seg < this_->slab_segment_top_truncation.data[g_sec + 1].n
                   && this_->slab_segment_thickness.data[g_sec].n <= WB_VEC_CAP && this_->slab_segment_thickness.data[g_sec + 1].n <= WB_VEC_CAP
                   && this_->slab_segment_top_truncation.data[g_sec].n <= WB_VEC_CAP && this_->slab_segment_top_truncation.data[g_sec + 1].n <= WB_VEC_CAP)
__CPROVER_assigns(wb_thrown, g_dist_calls, __CPROVER_object_whole(output))
__CPROVER_ensures(wb_thrown || output->n == g_total)
/* C07: no point that passes the sound pre-tests is discarded before the distance function is consulted */
__CPROVER_ensures((!wb_thrown && SOUND_PRE) ==> g_dist_calls == 1)
/* C06: membership iff the documented predicate on the two distances (observed through the tag) */
__CPROVER_ensures((!wb_thrown && IN_BLK && g_dist_calls == 1 && MEMBER) ==> output->data[wb_g_slot] == (double)this_->base_.tag_index)
__CPROVER_ensures((!wb_thrown && IN_BLK && !(g_dist_calls == 1 && MEMBER)) ==> SAMEL(output->data[wb_g_slot], g_before))
;
void h_slab(void)
{
  struct World w; struct CoordinateSystems_Interface cs; struct Features_SubductingPlate f; struct Point3 p; struct Objects_NaturalCoordinate nat;
  double depth, gravity; struct vec_arr_uint_3 req; struct vec_ulong entry; struct vec_double out;
  f.base_.world = &w; w.parameters.coordinate_system = &cs;
  spec_havoc_layout();
  HAVOC(g_feature); HAVOC(g_inbox); HAVOC(g_from); HAVOC(g_along); HAVOC(g_sf); HAVOC(g_gf); HAVOC(g_sec); HAVOC(g_seg); HAVOC(g_depthcoord);
  HAVOC(g_depth); HAVOC(g_blk); HAVOC(g_before); HAVOC(g_reqp);
  Features_SubductingPlate_properties(&f, &p, &nat, depth, &req, gravity, &entry, &out);
  REACHABLE();
}
