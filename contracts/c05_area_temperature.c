/* C05: temperature models of the area features (continental plate, oceanic plate, mantle layer) and of the plume
 * that are documented by a closed-form expression:  uniform, adiabatic, linear.
 *
 *   A model applies only inside its own [min depth, max depth] (global value and local depth surface); outside it
 *   returns the incoming temperature unchanged.  Inside it returns  apply(operation, incoming, NEW)  with
 *     uniform   NEW = temperature
 *     adiabatic NEW = Tp * exp(((alpha * g) / cp) * depth)            (the model's own Tp, alpha, cp)
 *     linear    NEW = Tt + (depth - zt) * ((Tb - Tt) / (zb - zt))     between the local top zt and bottom zb of the
 *               model's range clipped to the feature, Tt/Tb < 0 meaning the adiabatic temperature at zt/zb,
 *               and NEW = Tt for a range thinner than 10 eps.
 *     chapman   NEW = Tt + (q/k) (depth - zt) - A/(2k) (depth - zt)^2   with zt the top of the model's range clipped to
 *               the feature, q the top heat flux, k the conductivity, A the heat production; Tt < 0 = adiabatic at zt.
 * Selected by -DFAM=<family> -DKIND_UNIFORM / KIND_ADIABATIC / KIND_LINEAR / KIND_CHAPMAN.
 */
#include "spec.h"
#define CAT3_(a, b, c) a##b##c
#define CAT3(a, b, c) CAT3_(a, b, c)
#if defined(KIND_UNIFORM)
#define MODEL Uniform
#elif defined(KIND_ADIABATIC)
#define MODEL Adiabatic
#elif defined(KIND_LINEAR)
#define MODEL Linear
#elif defined(KIND_CHAPMAN)
#define MODEL Chapman
#endif
#define PASTE_(a, b) a##b
#define PASTE(a, b) PASTE_(a, b)
#define MTYPE PASTE(CAT3(Features_, FAM, Models_Temperature_), MODEL)
#define MFUNC PASTE(MTYPE, _get_temperature)
#define MCONTRACT PASTE(MTYPE, _get_temperature__contract)
#define MHARNESS PASTE(h_, MFUNC)

const void *g_model_min_surface, *g_model_max_surface;   /* addresses of the model's two depth surfaces */
double g_minl, g_maxl;                                    /* what the depth surfaces answer at the query position */
#include "gen.c"

struct Point2 Objects_NaturalCoordinate_get_surface_point__contract(struct Objects_NaturalCoordinate *this_)
__CPROVER_requires(1)
__CPROVER_assigns()
__CPROVER_ensures(1)
;

struct Objects_SurfaceValueInfo Objects_Surface_local_value__contract(struct Objects_Surface *this_, struct Point2 *check_point)
__CPROVER_requires(this_ == g_model_min_surface || this_ == g_model_max_surface)
__CPROVER_assigns(wb_thrown)
__CPROVER_ensures(IS_BOOL(wb_thrown))
__CPROVER_ensures(this_ == g_model_min_surface ==> SAMEL(__CPROVER_return_value.interpolated_value, g_minl))
__CPROVER_ensures(this_ == g_model_max_surface ==> SAMEL(__CPROVER_return_value.interpolated_value, g_maxl))
;

#define MINL (this_->min_depth_surface.constant_value ? this_->min_depth : g_minl)
#define MAXL (this_->max_depth_surface.constant_value ? this_->max_depth : g_maxl)
#define INRANGE (depth <= this_->max_depth && depth >= this_->min_depth && depth <= MAXL && depth >= MINL)
#define OP (this_->operation)
#define IS_REPLACE (OP == E_Operations_REPLACE || OP == E_Operations_REPLACE_DEFINED_ONLY)

#if defined(KIND_UNIFORM)
#define NEWT (this_->temperature)
#elif defined(KIND_ADIABATIC)
#define NEWT FPX(this_->potential_mantle_temperature * exp(((this_->thermal_expansion_coefficient * gravity_norm) / this_->specific_heat) * depth))
#elif defined(KIND_LINEAR)
#define WORLDP (this_->base_.world)
#define ZT (feature_min_depth < MINL ? MINL : feature_min_depth)
#define ZB (MAXL < feature_max_depth ? MAXL : feature_max_depth)
#define ADIAB(z) FPX(WORLDP->potential_mantle_temperature * exp(((WORLDP->thermal_expansion_coefficient * gravity_norm) / WORLDP->specific_heat) * z))
#define TT (this_->top_temperature < 0.0 ? ADIAB(ZT) : this_->top_temperature)
#define TB (this_->bottom_temperature < 0.0 ? ADIAB(ZB) : this_->bottom_temperature)
#define SLOPE_TERM ((FPXA(ZB - ZT) < 10.0 * DBL_EPSILON) ? 0.0 : FPX((depth - ZT) * ((TB - TT) / (ZB - ZT))))
#define NEWT FPXA(TT + SLOPE_TERM)
#elif defined(KIND_CHAPMAN)
#define WORLDP (this_->base_.world)
#define ZT (feature_min_depth < MINL ? MINL : feature_min_depth)
#define ADIAB(z) FPX(WORLDP->potential_mantle_temperature * exp(((WORLDP->thermal_expansion_coefficient * gravity_norm) / WORLDP->specific_heat) * z))
#define TT (this_->top_temperature < 0.0 ? ADIAB(ZT) : this_->top_temperature)
#define NEWT FPXA(TT + (this_->top_heat_flux / this_->thermal_conductivity) * (depth - ZT) - this_->heat_production_per_unit_volume / (2. * this_->thermal_conductivity) * (depth - ZT) * (depth - ZT))
#endif

double MCONTRACT(struct MTYPE *this_, struct Point3 *position, struct Objects_NaturalCoordinate *natural, double depth,
                 double gravity_norm, double temperature_, double feature_min_depth, double feature_max_depth)
__CPROVER_requires(g_model_min_surface == &this_->min_depth_surface && g_model_max_surface == &this_->max_depth_surface)
__CPROVER_requires(IS_BOOL(this_->min_depth_surface.constant_value) && IS_BOOL(this_->max_depth_surface.constant_value))
__CPROVER_requires(OP == E_Operations_REPLACE || OP == E_Operations_ADD || OP == E_Operations_SUBTRACT || OP == E_Operations_REPLACE_DEFINED_ONLY)
__CPROVER_requires(wb_thrown == 0)
__CPROVER_assigns(wb_thrown)
/* outside its own range the model leaves the temperature as it was */
__CPROVER_ensures((!wb_thrown && !INRANGE) ==> SAME(__CPROVER_return_value, temperature_))
/* inside: the documented expression, combined by the declared operation */
__CPROVER_ensures((!wb_thrown && INRANGE && IS_REPLACE) ==> SAME(__CPROVER_return_value, NEWT))
__CPROVER_ensures((!wb_thrown && INRANGE && OP == E_Operations_ADD) ==> SAME(__CPROVER_return_value, FPXA(temperature_ + NEWT)))
__CPROVER_ensures((!wb_thrown && INRANGE && OP == E_Operations_SUBTRACT) ==> SAME(__CPROVER_return_value, FPXA(temperature_ - NEWT)))
;

void MHARNESS(void)
{
  struct MTYPE m; struct Point3 p; struct Objects_NaturalCoordinate nat;
  double depth, g, t, fmin, fmax;
#if defined(KIND_LINEAR) || defined(KIND_CHAPMAN)
  struct World w;
  m.base_.world = &w;
#endif
  HAVOC(g_model_min_surface); HAVOC(g_model_max_surface); HAVOC(g_minl); HAVOC(g_maxl);
  MFUNC(&m, &p, &nat, depth, g, t, fmin, fmax);
  REACHABLE();
}
