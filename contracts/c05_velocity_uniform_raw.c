/* C05: "uniform raw" velocity model of the area features (-DFAM): inside its own depth range (global and local) each
 * component is apply(operation, incoming component, configured component), outside the incoming velocity is returned. */
#include "spec.h"
#define PASTE_(a, b) a##b
#define PASTE(a, b) PASTE_(a, b)
#define CAT3_(a, b, c) a##b##c
#define CAT3(a, b, c) CAT3_(a, b, c)
#define MTYPE CAT3(Features_, FAM, Models_Velocity_UniformRaw)
#define MFUNC PASTE(MTYPE, _get_velocity)
#define MCONTRACT PASTE(MTYPE, _get_velocity__contract)
const void *g_model; double g_minl, g_maxl;
#define MODEL ((struct MTYPE *)g_model)
#include "gen.c"
#if !defined(VARIANT_PLUME) && !defined(VARIANT_DIST)
struct Point2 Objects_NaturalCoordinate_get_surface_point__contract(struct Objects_NaturalCoordinate *this_)
__CPROVER_requires(1) __CPROVER_assigns() __CPROVER_ensures(1)
;
struct Objects_SurfaceValueInfo Objects_Surface_local_value__contract(struct Objects_Surface *this_, struct Point2 *check_point)
__CPROVER_requires(this_ == &MODEL->min_depth_surface || this_ == &MODEL->max_depth_surface)
__CPROVER_assigns(wb_thrown)
__CPROVER_ensures(IS_BOOL(wb_thrown))
__CPROVER_ensures(this_ == &MODEL->min_depth_surface ==> SAMEL(__CPROVER_return_value.interpolated_value, g_minl))
__CPROVER_ensures(this_ == &MODEL->max_depth_surface ==> SAMEL(__CPROVER_return_value.interpolated_value, g_maxl))
;
#define MINL (this_->min_depth_surface.constant_value ? this_->min_depth : g_minl)
#define MAXL (this_->max_depth_surface.constant_value ? this_->max_depth : g_maxl)
#define INRANGE (depth <= this_->max_depth && depth >= this_->min_depth && depth <= MAXL && depth >= MINL)
#define SURF_OK (IS_BOOL(this_->min_depth_surface.constant_value) && IS_BOOL(this_->max_depth_surface.constant_value))
#define MPARAMS struct MTYPE *this_, struct Point3 *position, struct Objects_NaturalCoordinate *nat, double depth, double gravity, struct arr_double_3 velocity_, double feature_min_depth, double feature_max_depth
#elif defined(VARIANT_PLUME)
#define INRANGE (depth <= this_->max_depth && depth >= this_->min_depth)
#define SURF_OK 1
#define MPARAMS struct MTYPE *this_, struct Point3 *position, struct Objects_NaturalCoordinate *nat, double depth, double gravity, struct arr_double_3 velocity_, double feature_min_depth, double feature_max_depth, double relative_distance_from_center
#else
#ifdef IS_FAULT
#define DIST __CPROVER_fabs(dist->distance_from_plane)
#else
#define DIST (dist->distance_from_plane)
#endif
#define INRANGE (DIST <= this_->max_depth && DIST >= this_->min_depth)
#define SURF_OK 1
#define MPARAMS struct MTYPE *this_, struct Point3 *position, double depth, double gravity, struct arr_double_3 velocity_, double feature_min_depth, double feature_max_depth, struct Utilities_PointDistanceFromCurvedPlanes *dist, struct Features_FeatureUtilities_AdditionalParameters *ap
#endif
#define OP (this_->operation)
#define IS_REPLACE (OP == E_Operations_REPLACE || OP == E_Operations_REPLACE_DEFINED_ONLY)
#define COMP_OK(k) ((!INRANGE ? SAME(__CPROVER_return_value.e[k], velocity_.e[k]) : 1) \
  && ((INRANGE && IS_REPLACE) ? SAME(__CPROVER_return_value.e[k], this_->velocity.e[k]) : 1) \
  && ((INRANGE && OP == E_Operations_ADD) ? SAME(__CPROVER_return_value.e[k], FPXA(velocity_.e[k] + this_->velocity.e[k])) : 1) \
  && ((INRANGE && OP == E_Operations_SUBTRACT) ? SAME(__CPROVER_return_value.e[k], FPXA(velocity_.e[k] - this_->velocity.e[k])) : 1))
struct arr_double_3 MCONTRACT(MPARAMS)
__CPROVER_requires(g_model == this_ && wb_thrown == 0)
__CPROVER_requires(SURF_OK)
__CPROVER_requires(OP == E_Operations_REPLACE || OP == E_Operations_ADD || OP == E_Operations_SUBTRACT || OP == E_Operations_REPLACE_DEFINED_ONLY)
__CPROVER_assigns(wb_thrown)
__CPROVER_ensures(wb_thrown || COMP_OK(0))
__CPROVER_ensures(wb_thrown || COMP_OK(1))
__CPROVER_ensures(wb_thrown || COMP_OK(2))
;
void h_velocity(void) { struct MTYPE m; struct Point3 p; double depth, g, fmin, fmax, rel; struct arr_double_3 v;
  HAVOC(g_model); HAVOC(g_minl); HAVOC(g_maxl);
#if defined(VARIANT_DIST)
  struct Utilities_PointDistanceFromCurvedPlanes d; struct Features_FeatureUtilities_AdditionalParameters ap;
  MFUNC(&m, &p, depth, g, v, fmin, fmax, &d, &ap);
#elif defined(VARIANT_PLUME)
  struct Objects_NaturalCoordinate nat; MFUNC(&m, &p, &nat, depth, g, v, fmin, fmax, rel);
#else
  struct Objects_NaturalCoordinate nat; MFUNC(&m, &p, &nat, depth, g, v, fmin, fmax);
#endif
  REACHABLE(); }
