/* C02 / C04: Plume::properties (derived from c02_area_feature.c: same fold contract, plume geometry).
 *  C04: covers := min depth <= depth <= max depth && REL <= 1, where REL is
 *        - the answer of fraction_from_ellipse_center for the cross section at `depth`: centre, semi-major axis and
 *          eccentricity interpolated linearly between the two cross sections that bracket the depth
 *          (F = (depth - d[i-1])/(d[i] - d[i-1]), value = (1-F)*v[i-1] + F*v[i]), rotation angle through
 *          interpolate_angle_across_zero(rot[i-1], rot[i], F); the entries of the deepest cross section below it;
 *        - between min depth and the shallowest cross section: the half-ellipsoid x^2/a^2 + y^2/b^2 + z^2/c^2 of the
 *          first cross section (b = a*sqrt(1-e^2), c = d[0] - min depth, z = d[0] - depth).
 *      Representation invariant (established by Plume::parse_entries, C12): one depth / axis / eccentricity / angle per
 *      coordinate; ASSUMED: cross-section depths ascending (checked by a WBAssert only).
 *  C02: !covers => identity; covers => fold of the models exactly as for the area features, the temperature and velocity
 *      models additionally receive REL.
 */
#include "spec.h"
#define PASTE_(a, b) a##b
#define PASTE(a, b) PASTE_(a, b)
#define CAT3_(a, b, c) a##b##c
#define CAT3(a, b, c) CAT3_(a, b, c)
#define FAM Plume
#define FT PASTE(Features_, FAM)
#define FFUNC PASTE(FT, _properties)
#define FCONTRACT PASTE(FT, _properties__contract)
#define TIFACE CAT3(Features_, FAM, Models_Temperature_Interface)
#define CIFACE CAT3(Features_, FAM, Models_Composition_Interface)
#define GIFACE CAT3(Features_, FAM, Models_Grains_Interface)
#define VIFACE CAT3(Features_, FAM, Models_Velocity_Interface)

const void *g_feature;                     /* the feature under contract */
double g_rel0, g_rot, g_sx, g_sy;           /* answers of fraction_from_ellipse_center / interpolate_angle_across_zero / the surface position */
size_t g_ub;                               /* answer of std::upper_bound(depths, depth) as an index */
double g_rel;                              /* ghost: the normalised distance the membership test uses (captured at the test) */
double g_depth, g_gravity;
const struct vec_arr_uint_3 *g_reqp;
size_t g_blk;                              /* request entry whose block contains wb_g_slot */
unsigned char g_active;                    /* ghost: entry g_blk is being processed */
size_t g_next;                             /* number of models of the active kind applied so far */
double g_chain;                            /* scalar kinds: value painted so far */
double g_vchain0, g_vchain1, g_vchain2;    /* velocity painted so far */
size_t g_gi, g_gr, g_gc;                   /* grains: arbitrary grain index / matrix row / column followed through the fold */
double g_gsize, g_grot;                    /* size and matrix entry of that grain as painted so far */
double g_before;                           /* slot value before the call */
/* values captured by ghost code at the entry of an inner model loop (loop_entry of an indexed cell is not usable) */
double g_e_slot, g_e_chain, g_e_gsize, g_e_grot, g_e_v0, g_e_v1, g_e_v2; size_t g_e_next;
#define REQ(k) (g_reqp->data[k])
#define KIND (REQ(g_blk).e[0])
#define IN_BLK (wb_g_slot < g_total)
#define OFF (wb_g_slot - g_pre[g_blk])
#define NGR ((size_t)REQ(g_blk).e[2])
#define ENTRY_OK(k, n) ((size_t)(k) >= (size_t)(n) || (entry_in_output->data[k] == g_pre[k] && (REQ(k).e[0] != 3u || REQ(k).e[2] <= WB_CAP_vec_arr_arr_double_3_3)))
#define GR_SIZE(g) ((g).sizes.data[g_gi])
#define GR_ROT(g) ((g).rotation_matrices.data[g_gi].e[g_gr].e[g_gc])
#define FEAT ((struct FT *)g_feature)
#define FMINL (FEAT->min_depth)
#define FMAXL (FEAT->max_depth)
#define NC (FEAT->base_.coordinates.n)
#define D(k) (FEAT->depths.data[k])
#define CX(k) (FEAT->base_.coordinates.data[k].point.e[0])
#define CY(k) (FEAT->base_.coordinates.data[k].point.e[1])
#define AX(k) (FEAT->semi_major_axis_lengths.data[k])
#define EC(k) (FEAT->eccentricities.data[k])
#define RO(k) (FEAT->rotation_angles.data[k])
#define TIPCASE (g_depth >= FEAT->min_depth && g_depth < D(0))
#define TX FPXA((g_sx - CX(0)) * cos(RO(0)) + (g_sy - CY(0)) * sin(RO(0)))
#define TY FPXA(-(g_sx - CX(0)) * sin(RO(0)) + (g_sy - CY(0)) * cos(RO(0)))
#define TB FPXA(AX(0) * sqrt(1 - wb_pow(EC(0), 2)))
#define TC FPXA(D(0) - FEAT->min_depth)
#define TZ FPXA(D(0) - g_depth)
#define TIP FPXA((TX * TX) / (AX(0) * AX(0)) + (TY * TY) / (TB * TB) + (TZ * TZ) / (TC * TC))
#define REL g_rel
#define COVERS (g_depth <= FEAT->max_depth && g_depth >= FEAT->min_depth && g_rel <= 1.0)
/* C04 lemma at the membership test: the distance is the half-ellipsoid expression above the shallowest cross section and the
 * answer of the ellipse test elsewhere */
#define PLUME_LEMMA g_rel = relative_distance_from_center; \
  __CPROVER_assert(TIPCASE ? SAME(relative_distance_from_center, TIP) : SAMEL(relative_distance_from_center, g_rel0), "PLUME-LEMMA normalised distance: half-ellipsoid above the first cross section, ellipse test below");
#define FRAC FPXA((g_depth - D(g_ub - 1)) / (D(g_ub) - D(g_ub - 1)))
#define LERP(V) FPXA((1 - FRAC) * V(g_ub - 1) + FRAC * V(g_ub))
#define MID (g_ub > 0 && g_ub < NC)

#include "gen.c"

/* ---- geometry callees */
size_t wb_upper_bound_idx__contract(const double *d, size_t n, double v)
__CPROVER_requires(d == FEAT->depths.data && n == FEAT->depths.n && SAMEL(v, g_depth))
__CPROVER_assigns()
__CPROVER_ensures(__CPROVER_return_value == g_ub && g_ub <= n)
__CPROVER_ensures(g_ub > 0 ==> !(v < d[g_ub - 1]))
__CPROVER_ensures(g_ub < n ==> v < d[g_ub])
;
struct arr_double_2 Objects_NaturalCoordinate_get_surface_coordinates__contract(struct Objects_NaturalCoordinate *this_)
__CPROVER_requires(1) __CPROVER_assigns() __CPROVER_ensures(SAMEL(__CPROVER_return_value.e[0], g_sx) && SAMEL(__CPROVER_return_value.e[1], g_sy))
;
enum enum_CoordinateSystem CoordinateSystems_Interface_natural_coordinate_system__contract(struct CoordinateSystems_Interface *this_)
__CPROVER_requires(1) __CPROVER_assigns() __CPROVER_ensures(1)
;
/* C04: the rotation angle of the bracketing cross sections, interpolated at the same fraction */
double Utilities_interpolate_angle_across_zero__contract(double angle_1, double angle_2, double fraction)
__CPROVER_requires(MID && SAMEL(angle_1, RO(g_ub - 1)) && SAMEL(angle_2, RO(g_ub)) && SAME(fraction, FRAC))
__CPROVER_assigns()
__CPROVER_ensures(SAMEL(__CPROVER_return_value, g_rot))
;
/* C04: the ellipse test is asked for the cross section at the query depth */
double Utilities_fraction_from_ellipse_center__contract(struct Point2 *ellipse_center, double semi_major_axis, double eccentricity, double theta, struct Point2 *point)
__CPROVER_requires(SAMEL(point->point.e[0], g_sx) && SAMEL(point->point.e[1], g_sy))
__CPROVER_requires(g_ub == 0 ==> (SAMEL(ellipse_center->point.e[0], CX(0)) && SAMEL(ellipse_center->point.e[1], CY(0)) && SAMEL(eccentricity, EC(0)) && SAMEL(theta, RO(0))))
__CPROVER_requires((g_ub != 0 && g_ub == NC) ==> (SAMEL(ellipse_center->point.e[0], CX(NC - 1)) && SAMEL(ellipse_center->point.e[1], CY(NC - 1)) && SAMEL(semi_major_axis, AX(NC - 1)) && SAMEL(eccentricity, EC(NC - 1)) && SAMEL(theta, RO(NC - 1))))
__CPROVER_requires(MID ==> (SAME(ellipse_center->point.e[0], LERP(CX)) && SAME(ellipse_center->point.e[1], LERP(CY)) && SAME(semi_major_axis, LERP(AX)) && SAME(eccentricity, LERP(EC)) && SAMEL(theta, g_rot)))
__CPROVER_assigns(wb_thrown)
__CPROVER_ensures(IS_BOOL(wb_thrown) && SAMEL(__CPROVER_return_value, g_rel0))
;

/* ---- interface contracts of the models: while the entry of the observed block is processed (g_active) every
 *      model must be the next one of its list and must receive the value painted so far */
double PASTE(TIFACE, _get_temperature__contract)(struct TIFACE *this_, struct Point3 *position, struct Objects_NaturalCoordinate *nat,
    double depth, double gravity, double temperature, double feature_min_depth, double feature_max_depth, double relative_distance_from_center)
__CPROVER_requires(!g_active || SAME(relative_distance_from_center, REL))
__CPROVER_requires(!g_active || (g_next < FEAT->temperature_models.n && this_ == FEAT->temperature_models.data[g_next]))
__CPROVER_requires(!g_active || SAMEL(temperature, g_chain))
__CPROVER_requires(!g_active || SAMEL(depth, g_depth))
__CPROVER_requires(!g_active || SAMEL(gravity, g_gravity))
__CPROVER_requires(!g_active || SAME(feature_min_depth, FMINL))
__CPROVER_requires(!g_active || SAME(feature_max_depth, FMAXL))
__CPROVER_assigns(wb_thrown)
__CPROVER_assigns(g_active != 0: g_next, g_chain)
__CPROVER_ensures(IS_BOOL(wb_thrown))
__CPROVER_ensures(g_active ==> (g_next == __CPROVER_old(g_next) + 1 && SAMEL(__CPROVER_return_value, g_chain)))
;
double PASTE(CIFACE, _get_composition__contract)(struct CIFACE *this_, struct Point3 *position, struct Objects_NaturalCoordinate *nat,
    double depth, unsigned int composition_number, double composition, double feature_min_depth, double feature_max_depth)
__CPROVER_requires(!g_active || (g_next < FEAT->composition_models.n && this_ == FEAT->composition_models.data[g_next]))
__CPROVER_requires(!g_active || composition_number == REQ(g_blk).e[1])
__CPROVER_requires(!g_active || SAMEL(composition, g_chain))
__CPROVER_requires(!g_active || SAMEL(depth, g_depth))
__CPROVER_requires(!g_active || SAME(feature_min_depth, FMINL))
__CPROVER_requires(!g_active || SAME(feature_max_depth, FMAXL))
__CPROVER_assigns(wb_thrown)
__CPROVER_assigns(g_active != 0: g_next, g_chain)
__CPROVER_ensures(IS_BOOL(wb_thrown))
__CPROVER_ensures(g_active ==> (g_next == __CPROVER_old(g_next) + 1 && SAMEL(__CPROVER_return_value, g_chain)))
;
struct arr_double_3 PASTE(VIFACE, _get_velocity__contract)(struct VIFACE *this_, struct Point3 *position, struct Objects_NaturalCoordinate *nat,
    double depth, double gravity, struct arr_double_3 velocity, double feature_min_depth, double feature_max_depth, double relative_distance_from_center)
__CPROVER_requires(!g_active || SAME(relative_distance_from_center, REL))
__CPROVER_requires(!g_active || (g_next < FEAT->velocity_models.n && this_ == FEAT->velocity_models.data[g_next]))
__CPROVER_requires(!g_active || (SAMEL(velocity.e[0], g_vchain0) && SAMEL(velocity.e[1], g_vchain1) && SAMEL(velocity.e[2], g_vchain2)))
__CPROVER_requires(!g_active || SAMEL(depth, g_depth))
__CPROVER_requires(!g_active || SAMEL(gravity, g_gravity))
__CPROVER_requires(!g_active || SAME(feature_min_depth, FMINL))
__CPROVER_requires(!g_active || SAME(feature_max_depth, FMAXL))
__CPROVER_assigns(wb_thrown)
__CPROVER_assigns(g_active != 0: g_next, g_vchain0, g_vchain1, g_vchain2)
__CPROVER_ensures(IS_BOOL(wb_thrown))
__CPROVER_ensures(g_active ==> (g_next == __CPROVER_old(g_next) + 1 && SAMEL(__CPROVER_return_value.e[0], g_vchain0)
                  && SAMEL(__CPROVER_return_value.e[1], g_vchain1) && SAMEL(__CPROVER_return_value.e[2], g_vchain2)))
;
struct grains PASTE(GIFACE, _get_grains__contract)(struct GIFACE *this_, struct Point3 *position, struct Objects_NaturalCoordinate *nat,
    double depth, unsigned int composition_number, struct grains grains, double feature_min_depth, double feature_max_depth)
__CPROVER_requires(!g_active || (g_next < FEAT->grains_models.n && this_ == FEAT->grains_models.data[g_next]))
__CPROVER_requires(!g_active || composition_number == REQ(g_blk).e[1])
__CPROVER_requires(!g_active || (grains.sizes.n == NGR && grains.rotation_matrices.n == NGR))
__CPROVER_requires(!g_active || (SAMEL(GR_SIZE(grains), g_gsize) && SAMEL(GR_ROT(grains), g_grot)))
__CPROVER_requires(!g_active || SAMEL(depth, g_depth))
__CPROVER_requires(!g_active || SAME(feature_min_depth, FMINL))
__CPROVER_requires(!g_active || SAME(feature_max_depth, FMAXL))
__CPROVER_assigns(wb_thrown)
__CPROVER_assigns(g_active != 0: g_next, g_gsize, g_grot)
__CPROVER_ensures(IS_BOOL(wb_thrown))
__CPROVER_ensures(g_active ==> (g_next == __CPROVER_old(g_next) + 1 && __CPROVER_return_value.sizes.n == NGR && __CPROVER_return_value.rotation_matrices.n == NGR
                  && SAMEL(GR_SIZE(__CPROVER_return_value), g_gsize) && SAMEL(GR_ROT(__CPROVER_return_value), g_grot)))
__CPROVER_ensures(!g_active ==> (__CPROVER_return_value.sizes.n == grains.sizes.n && __CPROVER_return_value.rotation_matrices.n == grains.sizes.n))
;
/* grains(vector, n, start) reads sizes vector[start .. start+n) and matrices vector[start+n+9i+3r+c]; unroll_into writes
 * them back in the same layout and touches nothing else (both enforced on the real grains.cc in units grains_ctor / grains_unroll) */
struct grains grains_ctor__contract(struct vec_double *vector, unsigned long number_of_grains, unsigned long start_entry)
__CPROVER_requires(number_of_grains <= WB_CAP_vec_arr_arr_double_3_3 && vector->n <= WB_CAP_vec_double && start_entry <= vector->n && 10 * number_of_grains <= vector->n - start_entry)
__CPROVER_assigns()
__CPROVER_ensures(__CPROVER_return_value.sizes.n == number_of_grains && __CPROVER_return_value.rotation_matrices.n == number_of_grains)
__CPROVER_ensures((g_gi < number_of_grains && g_gr < 3 && g_gc < 3) ==> (SAMEL(GR_SIZE(__CPROVER_return_value), vector->data[start_entry + g_gi])
                  && SAMEL(GR_ROT(__CPROVER_return_value), vector->data[start_entry + number_of_grains + 9 * g_gi + 3 * g_gr + g_gc])))
;
void grains_unroll_into__contract(struct grains *this_, struct vec_double *vector, unsigned long start_entry)
__CPROVER_requires(this_->sizes.n == this_->rotation_matrices.n && this_->sizes.n <= WB_CAP_vec_arr_arr_double_3_3)
__CPROVER_requires(vector->n <= WB_CAP_vec_double && start_entry <= vector->n && 10 * this_->sizes.n <= vector->n - start_entry)
__CPROVER_requires(wb_g_slot < vector->n ==> SAMEL(g_e_slot, vector->data[wb_g_slot]))   /* caller's ghost names the slot value before the call */
__CPROVER_assigns(__CPROVER_object_whole(vector))
__CPROVER_ensures(vector->n == __CPROVER_old(vector->n))
__CPROVER_ensures((wb_g_slot < vector->n && (wb_g_slot < start_entry || wb_g_slot >= start_entry + 10 * this_->sizes.n)) ==>
                  SAMEL(vector->data[wb_g_slot], g_e_slot))
__CPROVER_ensures((g_gi < this_->sizes.n && g_gr < 3 && g_gc < 3) ==> (SAMEL(vector->data[start_entry + g_gi], GR_SIZE(*this_))
                  && SAMEL(vector->data[start_entry + this_->sizes.n + 9 * g_gi + 3 * g_gr + g_gc], GR_ROT(*this_))))
;

/* ---- the feature */
void FCONTRACT(struct FT *this_, struct Point3 *position, struct Objects_NaturalCoordinate *nat, double depth,
    struct vec_arr_uint_3 *properties, double gravity_norm, struct vec_ulong *entry_in_output, struct vec_double *output)
__CPROVER_requires(g_feature == this_ && g_reqp == properties && wb_thrown == 0 && g_active == 0 && g_next == 0)
__CPROVER_requires(SAMEL(g_depth, depth))
__CPROVER_requires(SAMEL(g_gravity, gravity_norm))
/* representation invariant of a parsed plume (C12) + ascending cross-section depths (assumed) */
__CPROVER_requires(NC >= 1 && NC <= 3 && NC <= WB_CAP_vec_Point2 && NC <= WB_CAP_vec_double && this_->depths.n == NC && this_->semi_major_axis_lengths.n == NC && this_->eccentricities.n == NC && this_->rotation_angles.n == NC)
__CPROVER_requires((NC < 2 || D(0) < D(1)) && (NC < 3 || D(1) < D(2)))
__CPROVER_requires(properties->n <= MAXP && entry_in_output->n == properties->n && output->n == g_total && g_total <= WB_CAP_vec_double)
__CPROVER_requires(LAYOUT_PRE(properties->data, properties->n))
__CPROVER_requires(FORALL_K(ENTRY_OK, properties->n))
__CPROVER_requires(this_->temperature_models.n <= WB_VEC_CAP && this_->composition_models.n <= WB_VEC_CAP && this_->grains_models.n <= WB_VEC_CAP && this_->velocity_models.n <= WB_VEC_CAP)
__CPROVER_requires(IN_BLK ==> (g_blk < properties->n && g_pre[g_blk] <= wb_g_slot && wb_g_slot < g_pre[g_blk + 1]))
__CPROVER_requires(IN_BLK ==> SAMEL(g_before, output->data[wb_g_slot]))
__CPROVER_requires((IN_BLK && KIND == 3u) ==> (NGR <= WB_CAP_vec_arr_arr_double_3_3 && g_gr < 3 && g_gc < 3 &&
                   (OFF < NGR ? g_gi == OFF : (g_gi == (OFF - NGR) / 9 && 3 * g_gr + g_gc == (OFF - NGR) % 9))))
__CPROVER_assigns(wb_thrown, g_rel, g_active, g_next, g_chain, g_vchain0, g_vchain1, g_vchain2, g_gsize, g_grot, __CPROVER_object_whole(output),
                  g_e_slot, g_e_chain, g_e_gsize, g_e_grot, g_e_v0, g_e_v1, g_e_v2, g_e_next)
__CPROVER_ensures(wb_thrown || output->n == g_total)
/* a feature that does not contain the point has no influence */
__CPROVER_ensures((!wb_thrown && IN_BLK && !COVERS) ==> SAMEL(output->data[wb_g_slot], g_before))
/* temperature and composition: in-order fold of all models of the kind over the incoming value */
__CPROVER_ensures((!wb_thrown && IN_BLK && COVERS && KIND == 1u) ==> (g_next == this_->temperature_models.n
                  && (g_next == 0 ? SAMEL(output->data[wb_g_slot], g_before) : SAMEL(output->data[wb_g_slot], g_chain))))
__CPROVER_ensures((!wb_thrown && IN_BLK && COVERS && KIND == 2u) ==> (g_next == this_->composition_models.n
                  && (g_next == 0 ? SAMEL(output->data[wb_g_slot], g_before) : SAMEL(output->data[wb_g_slot], g_chain))))
/* tag: this feature's index */
__CPROVER_ensures((!wb_thrown && IN_BLK && COVERS && KIND == 4u) ==> output->data[wb_g_slot] == (double)this_->base_.tag_index)
/* velocity: fold from zero */
__CPROVER_ensures((!wb_thrown && IN_BLK && COVERS && KIND == 5u) ==> (g_next == this_->velocity_models.n
                  && (g_next == 0 ? output->data[wb_g_slot] == 0.0
                      : (OFF == 0 ? SAMEL(output->data[wb_g_slot], g_vchain0) : OFF == 1 ? SAMEL(output->data[wb_g_slot], g_vchain1) : SAMEL(output->data[wb_g_slot], g_vchain2)))))
/* grains: read, fold, write back */
__CPROVER_ensures((!wb_thrown && IN_BLK && COVERS && KIND == 3u) ==> (g_next == this_->grains_models.n
                  && (g_next == 0 ? SAMEL(output->data[wb_g_slot], g_before)
                      : (OFF < NGR ? SAMEL(output->data[wb_g_slot], g_gsize) : SAMEL(output->data[wb_g_slot], g_grot)))))
;

void h_feature(void)
{
  struct World w; struct CoordinateSystems_Interface cs; struct FT f; struct Point3 p; struct Objects_NaturalCoordinate nat;
  double depth, gravity; struct vec_arr_uint_3 req; struct vec_ulong entry; struct vec_double out;
  f.base_.world = &w; w.parameters.coordinate_system = &cs;
  spec_havoc_layout();
  HAVOC(g_feature); HAVOC(g_rel0); HAVOC(g_rel); HAVOC(g_rot); HAVOC(g_sx); HAVOC(g_sy); HAVOC(g_ub); HAVOC(g_depth); HAVOC(g_gravity); HAVOC(g_reqp); HAVOC(g_blk);
  HAVOC(g_chain); HAVOC(g_vchain0); HAVOC(g_vchain1); HAVOC(g_vchain2); HAVOC(g_gi); HAVOC(g_gr); HAVOC(g_gc); HAVOC(g_gsize); HAVOC(g_grot); HAVOC(g_before);
  FFUNC(&f, &p, &nat, depth, &req, gravity, &entry, &out);
  REACHABLE();
}
