/* C01 + C02 + C03: the 3D evaluator World::properties(array<double,3>, depth, properties)
 *
 *  layout (C01)  : the answer has g_total = sum of widths values, block k starts at g_pre[k];
 *  background(C03): before any feature is applied the slot wb_g_slot holds the background state of its block:
 *                   temperature -> Tp*exp(((alpha*g)/cp)*depth)  (or the surface temperature when forced at depth 0),
 *                   composition -> 0, grains -> 0, tag -> -1, velocity -> 0;
 *  fold (C02)    : every feature is applied exactly once, in file order, to (point, natural coordinate, depth,
 *                  the request, gravity norm, block offsets, answer); nothing but the features changes a slot;
 *  frame (C01/C14): no member of the world and no global is written.
 */
#include "spec.h"

struct World *g_world;
const struct vec_arr_uint_3 *g_reqp;           /* the request */
double g_depth, g_gravity;                      /* depth argument, value answered by gravity_norm */
size_t g_bad;                                   /* index of an entry with unknown property id, if there is one */
size_t g_blk;                                   /* index of the request entry whose block contains wb_g_slot */
size_t g_next_feature;                          /* number of features applied so far */
double g_chain;                                 /* value of slot wb_g_slot as left by the last feature applied */
double g_last;                                  /* ghost: value of the slot after the last feature, before the forced surface temperature is re-imposed */
double g_bg;                                    /* ghost: background value of the slot, named once before the fill loop */
struct Point3 g_point;                          /* the query point as handed to gravity model and features */
#define REQ(k) (g_reqp->data[k])
#define ARR3EQ(a, b) ((a).e[0] == (b).e[0] && (a).e[1] == (b).e[1] && (a).e[2] == (b).e[2])
#define FORCED(w, depth) ((w)->force_surface_temperature && __CPROVER_fabs(depth) < 2.0 * DBL_EPSILON)
/* filled prefix of the local tables equals the request / the block offsets (k ranges over [0, MAXP)) */
#define TAB_OK(k, upto) ((size_t)(k) >= (size_t)(upto) || (entry_in_output.data[k] == g_pre[k] && ARR3EQ(properties_local.data[k], REQ(k))))
#include "gen.c"

struct Objects_NaturalCoordinate NaturalCoordinate_ctor__contract(struct Point3 *position, struct CoordinateSystems_Interface *coordinate_system_)
__CPROVER_requires(coordinate_system_ == g_world->parameters.coordinate_system)
__CPROVER_assigns(wb_thrown)
__CPROVER_ensures(IS_BOOL(wb_thrown))
;

double GravityModel_Interface_gravity_norm__contract(struct GravityModel_Interface *this_, struct Point3 point)
__CPROVER_requires(this_ == g_world->parameters.gravity_model)
__CPROVER_assigns(wb_thrown)
__CPROVER_ensures(IS_BOOL(wb_thrown) && SAMEL(__CPROVER_return_value, g_gravity))
;

/* interface contract of Features::Interface::properties as the world relies on it */
void Features_Interface_properties__contract(struct Features_Interface *this_, struct Point3 *position_in_cartesian_coordinates,
    struct Objects_NaturalCoordinate *position_in_natural_coordinates, double depth, struct vec_arr_uint_3 *properties,
    double gravity, struct vec_ulong *entry_in_output, struct vec_double *output)
/* called once per feature, in file order */
__CPROVER_requires(g_next_feature < g_world->parameters.features.n && this_ == g_world->parameters.features.data[g_next_feature])
/* with the query's depth and gravity norm, the request and the block offsets */
__CPROVER_requires(SAMEL(depth, g_depth))
__CPROVER_requires(SAMEL(gravity, g_gravity))
__CPROVER_requires(properties->n == g_reqp->n && entry_in_output->n == g_reqp->n && output->n == g_total)
__CPROVER_requires((wb_g_slot < g_total && g_blk < g_reqp->n) ==> (ARR3EQ(properties->data[g_blk], REQ(g_blk)) && entry_in_output->data[g_blk] == g_pre[g_blk]))
/* and an answer in which the slot still holds what the previous feature (or the background) left */
__CPROVER_requires((wb_g_slot < g_total && g_next_feature == 0) ==> SAMEL(output->data[wb_g_slot], g_bg))
__CPROVER_requires((wb_g_slot < g_total && g_next_feature > 0) ==> SAMEL(output->data[wb_g_slot], g_chain))
__CPROVER_assigns(wb_thrown, g_next_feature, g_chain, __CPROVER_object_whole(output))
__CPROVER_ensures(IS_BOOL(wb_thrown) && g_next_feature == __CPROVER_old(g_next_feature) + 1 && output->n == g_total)
__CPROVER_ensures(wb_g_slot < g_total ==> SAMEL(output->data[wb_g_slot], g_chain))
;

struct vec_double World_properties_3d__contract(struct World *this_, struct arr_double_3 *point_, double depth, struct vec_arr_uint_3 *properties)
__CPROVER_requires(properties->n <= MAXP && g_total <= WB_CAP_vec_double && this_->parameters.features.n <= WB_CAP_vec_Features_Interface_p)
__CPROVER_requires(IS_BOOL(this_->force_surface_temperature))
__CPROVER_requires(LAYOUT_PRE(properties->data, properties->n))
__CPROVER_requires(LAYOUT_VALID(properties->data, properties->n))
__CPROVER_requires(!g_allvalid ==> (g_bad < properties->n && !VALID_PROPERTY(properties->data[g_bad])))
__CPROVER_requires(wb_g_slot < g_total ==> (g_blk < properties->n && g_pre[g_blk] <= wb_g_slot && wb_g_slot < g_pre[g_blk + 1]))
__CPROVER_requires(g_world == this_ && g_reqp == properties)
__CPROVER_requires(SAMEL(g_depth, depth))
__CPROVER_requires(g_next_feature == 0 && wb_thrown == 0)
__CPROVER_assigns(wb_thrown, g_next_feature, g_chain, g_bg, g_last) /* frame: the world is not written */
/* an unknown property id is refused */
__CPROVER_ensures(!g_allvalid ==> wb_thrown)
/* C01: exactly the announced number of values */
__CPROVER_ensures(!wb_thrown ==> __CPROVER_return_value.n == g_total)
/* C02: all features applied, once each, in order - except that a forced surface temperature asked alone returns at once */
__CPROVER_ensures(!wb_thrown ==> (g_next_feature == this_->parameters.features.n
                  || (properties->n == 1 && REQ(0).e[0] == 1u && FORCED(this_, depth) && g_next_feature == 0)))
/* C03: a forced surface temperature at depth zero is returned regardless of features and of the request's shape
 * (the code's window |depth| < 2 eps contains depth == 0) */
__CPROVER_ensures((!wb_thrown && wb_g_slot < g_total && REQ(g_blk).e[0] == 1u && FORCED(this_, depth)) ==>
                  SAMEL(__CPROVER_return_value.data[wb_g_slot], this_->surface_temperature))
/* C02: otherwise the slot holds what the last feature left */
__CPROVER_ensures((!wb_thrown && wb_g_slot < g_total && g_next_feature > 0 && !(REQ(g_blk).e[0] == 1u && FORCED(this_, depth))) ==>
                  SAMEL(__CPROVER_return_value.data[wb_g_slot], g_chain))
/* C03: and with no feature applied, the background state */
__CPROVER_ensures((!wb_thrown && wb_g_slot < g_total && g_next_feature == 0 && REQ(g_blk).e[0] == 1u && !FORCED(this_, depth)) ==>
                  SAME(__CPROVER_return_value.data[wb_g_slot], FPX(this_->potential_mantle_temperature * exp(((this_->thermal_expansion_coefficient * g_gravity) / this_->specific_heat) * depth))))
__CPROVER_ensures((!wb_thrown && wb_g_slot < g_total && g_next_feature == 0 && (REQ(g_blk).e[0] == 2u || REQ(g_blk).e[0] == 3u || REQ(g_blk).e[0] == 5u)) ==>
                  __CPROVER_return_value.data[wb_g_slot] == 0.0)
__CPROVER_ensures((!wb_thrown && wb_g_slot < g_total && g_next_feature == 0 && REQ(g_blk).e[0] == 4u) ==>
                  __CPROVER_return_value.data[wb_g_slot] == -1.0)
;

void h_World_properties_3d(void)
{
  struct World w; struct CoordinateSystems_Interface cs; struct GravityModel_Interface gm; struct arr_double_3 pt; double depth;
  struct vec_arr_uint_3 pv;
  w.parameters.coordinate_system = &cs; w.parameters.gravity_model = &gm;
  spec_havoc_layout();
  HAVOC(g_world); HAVOC(g_reqp); HAVOC(g_depth); HAVOC(g_gravity); HAVOC(g_blk); HAVOC(g_bad); HAVOC(g_chain); HAVOC(g_bg); HAVOC(g_last);
  World_properties_3d(&w, &pt, depth, &pv);
  REACHABLE();
}
