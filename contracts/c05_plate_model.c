/* C05: plate model of the oceanic plate (ridge age).  Inside its own (global and local) depth range, with
 *   v, d = the spreading velocity and ridge distance answered by calculate_ridge_distance_and_spreading (unit ridge_distance),
 *          asked with the model's ridge table, a single zero subducting velocity and a single zero migration time,
 *   age = d / v, kappa the world's thermal diffusivity, L = max depth, Tb = bottom temperature or, if negative, the adiabat
 *   Tp*exp(((alpha*g)/cp)*depth):
 *     T_0 = Tt + (Tb - Tt) * (depth / L)
 *     T_i = T_(i-1) + (Tb - Tt) * ((2/(i*pi)) * sin((i*pi*depth)/L) *
 *                      exp(((v*L)/(2*kappa) - sqrt((v*v*L*L)/(4*kappa*kappa) + i*i*pi*pi)) * ((v*age)/L)))      i = 1 .. 100
 *   (T_0 asserted before the real loop, each iteration checked against the documented term through the loop invariant,
 *   100 iterations), result apply(operation, incoming, T_100).  Outside the range: the incoming value, nothing asked. */
#include "spec.h"
const void *g_model; double g_minl, g_maxl, g_vel, g_dist;
double g_tb, g_final, g_di, g_expect, g_age; int g_iters;
#define MT Features_OceanicPlateModels_Temperature_PlateModel
#define MODEL ((struct MT *)g_model)
#define PM_TT (this_->top_temperature)
#define PM_L (this_->max_depth)
#define PM_INIT g_tb = bottom_temperature_local; g_age = age; \
  __CPROVER_assert(SAME(age, FPXA(g_dist / g_vel)), "PM-AGE age = ridge distance / spreading velocity"); \
  __CPROVER_assert(SAME(temperature, FPXA(PM_TT + (g_tb - PM_TT) * (depth / PM_L))), "PM-INIT the series starts from the linear profile Tt + (Tb - Tt) * depth / max depth"); \
  g_expect = temperature;
#define PM_STEP g_di = (double)i; g_iters++; \
  g_expect = FPXA(temperature + (g_tb - PM_TT) * ((2.0 / (g_di * G_Consts_PI)) * sin((g_di * G_Consts_PI * depth) / PM_L) * exp((((g_vel * PM_L) / (2.0 * thermal_diffusivity)) - sqrt(((g_vel * g_vel * PM_L * PM_L) / (4.0 * thermal_diffusivity * thermal_diffusivity)) + g_di * g_di * G_Consts_PI * G_Consts_PI)) * ((g_vel * g_age) / PM_L))));
#define PM_FINAL g_final = temperature;
#include "gen.c"
struct Point2 Objects_NaturalCoordinate_get_surface_point__contract(struct Objects_NaturalCoordinate *this_)
__CPROVER_requires(1) __CPROVER_assigns() __CPROVER_ensures(1)
;
struct Objects_SurfaceValueInfo Objects_Surface_local_value__contract(struct Objects_Surface *this_, struct Point2 *check_point)
__CPROVER_requires(this_ == &MODEL->min_depth_surface || this_ == &MODEL->max_depth_surface)
__CPROVER_assigns(wb_thrown)
__CPROVER_ensures(IS_BOOL(wb_thrown))
__CPROVER_ensures(this_ == &MODEL->min_depth_surface ==> SAMEL(__CPROVER_return_value.interpolated_value, g_minl))
__CPROVER_ensures(this_ == &MODEL->max_depth_surface ==> SAMEL(__CPROVER_return_value.interpolated_value, g_maxl))
;
struct Objects_NaturalCoordinate Objects_NaturalCoordinate_ctor__Point_3_CoordinateSystems_Interf__contract(struct Point3 *position, struct CoordinateSystems_Interface *coordinate_system_)
__CPROVER_requires(1) __CPROVER_assigns(wb_thrown)
__CPROVER_ensures(IS_BOOL(wb_thrown) && (__CPROVER_return_value.coordinate_system == E_CoordinateSystem_cartesian || __CPROVER_return_value.coordinate_system == E_CoordinateSystem_spherical))
;
struct vec_double Utilities_calculate_ridge_distance_and_spreading__contract(struct vec_vec_Point2 mid_oceanic_ridges, struct vec_vec_double mid_oceanic_spreading_velocities,
    struct CoordinateSystems_Interface **coordinate_system, struct Objects_NaturalCoordinate *nat_at_min_depth, struct vec_vec_double *subducting_plate_velocities, struct vec_double *ridge_migration_times)
__CPROVER_requires(mid_oceanic_ridges.n == MODEL->mid_oceanic_ridges.n && mid_oceanic_spreading_velocities.n == MODEL->spreading_velocities_at_each_ridge_point.n)
__CPROVER_requires(subducting_plate_velocities->n == 1 && subducting_plate_velocities->data[0].n == 1 && subducting_plate_velocities->data[0].data[0] == 0.0)
__CPROVER_requires(ridge_migration_times->n == 1 && ridge_migration_times->data[0] == 0.0)
__CPROVER_assigns(wb_thrown)
__CPROVER_ensures(IS_BOOL(wb_thrown) && __CPROVER_return_value.n == 4 && SAMEL(__CPROVER_return_value.data[0], g_vel) && SAMEL(__CPROVER_return_value.data[1], g_dist))
;
#define MINL (this_->min_depth_surface.constant_value ? this_->min_depth : g_minl)
#define MAXL (this_->max_depth_surface.constant_value ? this_->max_depth : g_maxl)
#define INRANGE (depth <= this_->max_depth && depth >= this_->min_depth && depth <= MAXL && depth >= MINL)
#define WORLD (this_->base_.world)
#define ADIAB FPX(WORLD->potential_mantle_temperature * exp(((WORLD->thermal_expansion_coefficient * gravity) / WORLD->specific_heat) * depth))
#define TB (this_->bottom_temperature < 0.0 ? ADIAB : this_->bottom_temperature)
#define OP (this_->operation)
#define IS_REPLACE (OP == E_Operations_REPLACE || OP == E_Operations_REPLACE_DEFINED_ONLY)
double PM__contract(struct MT *this_, struct Point3 *position, struct Objects_NaturalCoordinate *nat,
    double depth, double gravity, double temperature_, double feature_min_depth, double feature_max_depth)
__CPROVER_requires(g_model == this_ && wb_thrown == 0 && g_iters == 0)
__CPROVER_requires(IS_BOOL(this_->min_depth_surface.constant_value) && IS_BOOL(this_->max_depth_surface.constant_value))
__CPROVER_requires(OP == E_Operations_REPLACE || OP == E_Operations_ADD || OP == E_Operations_SUBTRACT || OP == E_Operations_REPLACE_DEFINED_ONLY)
__CPROVER_assigns(wb_thrown, g_tb, g_final, g_di, g_expect, g_age, g_iters)
__CPROVER_ensures((!wb_thrown && !INRANGE) ==> (SAME(__CPROVER_return_value, temperature_) && g_iters == 0))
__CPROVER_ensures((!wb_thrown && INRANGE) ==> (g_iters == 100 && SAME(g_tb, TB)))
__CPROVER_ensures((!wb_thrown && INRANGE && IS_REPLACE) ==> SAME(__CPROVER_return_value, g_final))
__CPROVER_ensures((!wb_thrown && INRANGE && OP == E_Operations_ADD) ==> SAME(__CPROVER_return_value, FPXA(temperature_ + g_final)))
__CPROVER_ensures((!wb_thrown && INRANGE && OP == E_Operations_SUBTRACT) ==> SAME(__CPROVER_return_value, FPXA(temperature_ - g_final)))
;
void h_plate_model(void)
{
  struct World w; struct CoordinateSystems_Interface cs; struct MT m; struct Point3 p; struct Objects_NaturalCoordinate nat; double d, g, t, a, b;
  m.base_.world = &w; w.parameters.coordinate_system = &cs;
  HAVOC(g_model); HAVOC(g_minl); HAVOC(g_maxl); HAVOC(g_vel); HAVOC(g_dist);
  PM(&m, &p, &nat, d, g, t, a, b);
  REACHABLE();
}
