/* C02 ("the reported tag is that of the last feature containing the point"): the tag index of a feature is the position of
 * its tag string in World::feature_tags - FeatureUtilities::add_vector_unique returns the index of the first equal entry and
 * leaves the list unchanged, or appends the string and returns the new last index; no other entry changes. */
#include "spec.h"
unsigned char g_present; size_t g_first; unsigned long g_tag; size_t g_k; unsigned long g_old;   /* arbitrary slot and its value before */
const struct vec_wb_string *g_vec;
#define NOT_EARLIER(k, dummy) ((size_t)(k) >= g_first || (size_t)(k) >= g_vec->n || g_vec->data[k].h != g_tag)
#define NOT_PRESENT(k, dummy) ((size_t)(k) >= g_vec->n || g_vec->data[k].h != g_tag)
#include "gen.c"
unsigned long Features_FeatureUtilities_add_vector_unique__contract(struct vec_wb_string *vector, struct wb_string *add_string)
__CPROVER_requires(g_vec == vector && add_string->h == g_tag && wb_thrown == 0)
__CPROVER_requires(vector->n <= MAXP && vector->n < WB_CAP_vec_wb_string)
__CPROVER_requires(g_present ? (g_first < vector->n && vector->data[g_first].h == g_tag && FORALL_K(NOT_EARLIER, 0)) : FORALL_K(NOT_PRESENT, 0))
__CPROVER_requires(g_k < vector->n ==> g_old == vector->data[g_k].h)
__CPROVER_assigns(wb_thrown, *vector)
__CPROVER_ensures(g_present ==> (__CPROVER_return_value == g_first && vector->n == __CPROVER_old(vector->n)))
__CPROVER_ensures(!g_present ==> (__CPROVER_return_value == __CPROVER_old(vector->n) && vector->n == __CPROVER_old(vector->n) + 1 && vector->data[__CPROVER_return_value].h == g_tag))
__CPROVER_ensures(g_k < __CPROVER_old(vector->n) ==> vector->data[g_k].h == g_old)
;
void h_tag_index(void) { struct vec_wb_string v; struct wb_string s; HAVOC(g_present); HAVOC(g_first); HAVOC(g_tag); HAVOC(g_k); HAVOC(g_old); HAVOC(g_vec);
  Features_FeatureUtilities_add_vector_unique(&v, &s); REACHABLE(); }
