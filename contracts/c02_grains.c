/* C01/C02: WorldBuilder::grains(vector, n, start) and grains::unroll_into(vector, start) are inverse views of one
 * block of the answer: sizes at [start, start+n), matrix i row r column c at start + n + 9 i + 3 r + c.
 * Same contract text as the stubs used by the feature units (c02_area_feature.c). */
#include "spec.h"
size_t g_gi, g_gr, g_gc;          /* arbitrary grain index / row / column */
double g_e_slot;                  /* value of vector[wb_g_slot] before unroll_into */
#define GR_SIZE(g) ((g).sizes.data[g_gi])
#define GR_ROT(g) ((g).rotation_matrices.data[g_gi].e[g_gr].e[g_gc])
#include "gen.c"

#ifdef UNIT_grains_ctor
struct grains grains_ctor__contract(struct vec_double *vector, unsigned long number_of_grains, unsigned long start_entry)
__CPROVER_requires(number_of_grains <= WB_CAP_vec_arr_arr_double_3_3 && vector->n <= WB_CAP_vec_double && start_entry <= vector->n && 10 * number_of_grains <= vector->n - start_entry)
__CPROVER_assigns()
__CPROVER_ensures(__CPROVER_return_value.sizes.n == number_of_grains && __CPROVER_return_value.rotation_matrices.n == number_of_grains)
__CPROVER_ensures((g_gi < number_of_grains && g_gr < 3 && g_gc < 3) ==> (SAMEL(GR_SIZE(__CPROVER_return_value), vector->data[start_entry + g_gi])
                  && SAMEL(GR_ROT(__CPROVER_return_value), vector->data[start_entry + number_of_grains + 9 * g_gi + 3 * g_gr + g_gc])))
;
void h_grains_ctor(void) { struct vec_double v; unsigned long n, s; HAVOC(g_gi); HAVOC(g_gr); HAVOC(g_gc); grains_ctor(&v, n, s); REACHABLE(); }
#endif
#ifdef UNIT_grains_unroll
void grains_unroll_into__contract(struct grains *this_, struct vec_double *vector, unsigned long start_entry)
__CPROVER_requires(this_->sizes.n == this_->rotation_matrices.n && this_->sizes.n <= WB_CAP_vec_arr_arr_double_3_3)
__CPROVER_requires(vector->n <= WB_CAP_vec_double && start_entry <= vector->n && 10 * this_->sizes.n <= vector->n - start_entry)
__CPROVER_requires(wb_g_slot < vector->n ==> SAMEL(g_e_slot, vector->data[wb_g_slot]))   /* caller's ghost names the slot value before the call */
__CPROVER_assigns(__CPROVER_object_whole(vector))
__CPROVER_ensures(vector->n == __CPROVER_old(vector->n))
__CPROVER_ensures((wb_g_slot < vector->n && (wb_g_slot < start_entry || wb_g_slot >= start_entry + 10 * this_->sizes.n)) ==>
                  SAMEL(vector->data[wb_g_slot], g_e_slot))
__CPROVER_ensures((g_gi < this_->sizes.n && g_gr < 3 && g_gc < 3) ==> (SAMEL(vector->data[start_entry + g_gi], GR_SIZE(*this_))
                  && SAMEL(vector->data[start_entry + this_->sizes.n + 9 * g_gi + 3 * g_gr + g_gc], GR_ROT(*this_))))
;
void h_grains_unroll(void) { struct grains g; struct vec_double v; unsigned long s; HAVOC(g_gi); HAVOC(g_gr); HAVOC(g_gc); HAVOC(g_e_slot); HAVOC(wb_g_slot);
  grains_unroll_into(&g, &v, s); REACHABLE(); }
#endif
