/* C02: tian water content composition model of the oceanic plate - the same selection rule as the uniform model with
 * the capped partition coefficient in place of the listed fraction:
 *   outside the model's own depth range (global and local)      -> the incoming value
 *   inside: pressure = max(0.5, min(density*9.81*depth/1e9, cutoff pressure)) [GPa], temperature = slot 0 of the world's
 *           answer to the request {{1,0,0}} at the same position and depth, w = min(max water content,
 *           calculate_water_content(pressure, temperature)) / 100
 *     requested composition listed       -> apply(operation, incoming, w)
 *     not listed: operation "replace"    -> 0, any other operation -> the incoming value
 */
#include "spec.h"
const void *g_model, *g_world, *g_pos;
double g_minl, g_maxl, g_depth;
double g_T;                        /* ghost: the temperature the world answers */
double g_pc;                       /* ghost: what calculate_water_content answers */
int g_w_calls, g_pc_calls;
unsigned char g_listed; size_t g_first; unsigned int g_number;
#ifdef VARIANT_DIST
#define MTYPE Features_SubductingPlateModels_Composition_TianWaterContent
#else
#define MTYPE Features_OceanicPlateModels_Composition_TianWaterContent
#endif
#define MODEL ((struct MTYPE *)g_model)
#define NOT_EARLIER(k, dummy) ((size_t)(k) >= g_first || (size_t)(k) >= MODEL->compositions.n || MODEL->compositions.data[k] != g_number)
#define NOT_LISTED(k, dummy) ((size_t)(k) >= MODEL->compositions.n || MODEL->compositions.data[k] != g_number)
#include "gen.c"
#define MINF(a, b) ((b) < (a) ? (b) : (a))
#define MAXF(a, b) ((a) < (b) ? (b) : (a))

#ifndef VARIANT_DIST
struct Point2 Objects_NaturalCoordinate_get_surface_point__contract(struct Objects_NaturalCoordinate *this_)
__CPROVER_requires(1) __CPROVER_assigns() __CPROVER_ensures(1)
;
struct Objects_SurfaceValueInfo Objects_Surface_local_value__contract(struct Objects_Surface *this_, struct Point2 *check_point)
__CPROVER_requires(this_ == &MODEL->min_depth_surface || this_ == &MODEL->max_depth_surface)
__CPROVER_assigns(wb_thrown)
__CPROVER_ensures(IS_BOOL(wb_thrown))
__CPROVER_ensures(this_ == &MODEL->min_depth_surface ==> SAMEL(__CPROVER_return_value.interpolated_value, g_minl))
__CPROVER_ensures(this_ == &MODEL->max_depth_surface ==> SAMEL(__CPROVER_return_value.interpolated_value, g_maxl))
;
#endif
/* the world is asked once, for the temperature only, at the model's own position and depth */
struct vec_double World_properties_3d__contract(struct World *this_, struct arr_double_3 *point_, double depth, struct vec_arr_uint_3 *properties)
__CPROVER_requires((const void *)this_ == g_world && g_w_calls == 0 && SAMEL(depth, g_depth))
__CPROVER_requires(__CPROVER_r_ok(point_, sizeof(*point_)) && __CPROVER_r_ok(properties, sizeof(*properties)))
__CPROVER_requires(SAMEL(point_->e[0], ((struct Point3 *)g_pos)->point.e[0]) && SAMEL(point_->e[1], ((struct Point3 *)g_pos)->point.e[1]) && SAMEL(point_->e[2], ((struct Point3 *)g_pos)->point.e[2]))
__CPROVER_requires(properties->n == 1 && properties->data[0].e[0] == 1 && properties->data[0].e[1] == 0 && properties->data[0].e[2] == 0)
__CPROVER_assigns(wb_thrown, g_w_calls)
__CPROVER_ensures(IS_BOOL(wb_thrown) && g_w_calls == 1)
__CPROVER_ensures(!wb_thrown ==> (__CPROVER_return_value.n == 1 && SAMEL(__CPROVER_return_value.data[0], g_T)))
;
#define PRESSURE_AT(d) MAXF(0.5, MINF(FPXA(this_->density * 9.81 * (d) / 1e9), this_->cutoff_pressure))
double TIAN_CALC__contract(struct MTYPE *this_, double pressure, double temperature)
__CPROVER_requires(this_ == g_model && g_pc_calls == 0 && g_w_calls == 1)
__CPROVER_requires(SAME(pressure, PRESSURE_AT(g_depth)) && SAMEL(temperature, g_T))
__CPROVER_assigns(g_pc_calls)
__CPROVER_ensures(g_pc_calls == 1 && SAMEL(__CPROVER_return_value, g_pc))
;
#ifdef VARIANT_DIST
/* slab model: the range is in the distance from the slab surface, there are no depth surfaces */
#define INRANGE (dist->distance_from_plane <= this_->max_depth && dist->distance_from_plane >= this_->min_depth)
#define SURF_OK 1
#define MPARAMS struct MTYPE *this_, struct Point3 *position, double depth, unsigned int composition_number, double composition, double feature_min_depth, double feature_max_depth, struct Utilities_PointDistanceFromCurvedPlanes *dist, struct Features_FeatureUtilities_AdditionalParameters *additional_parameters
#else
#define MINL (this_->min_depth_surface.constant_value ? this_->min_depth : g_minl)
#define MAXL (this_->max_depth_surface.constant_value ? this_->max_depth : g_maxl)
#define INRANGE (depth <= this_->max_depth && depth >= this_->min_depth && depth <= MAXL && depth >= MINL)
#define SURF_OK (IS_BOOL(this_->min_depth_surface.constant_value) && IS_BOOL(this_->max_depth_surface.constant_value))
#define MPARAMS struct MTYPE *this_, struct Point3 *position, struct Objects_NaturalCoordinate *nat, double depth, unsigned int composition_number, double composition, double feature_min_depth, double feature_max_depth
#endif
#define OP (this_->operation)
#define W FPXA(MINF(this_->max_water_content, g_pc) / 100)

double TIAN_GET__contract(MPARAMS)
__CPROVER_requires(g_model == this_ && g_number == composition_number && wb_thrown == 0 && g_w_calls == 0 && g_pc_calls == 0)
__CPROVER_requires((const void *)this_->base_.world == g_world && (const void *)position == g_pos && SAMEL(depth, g_depth))
__CPROVER_requires(SURF_OK)
__CPROVER_requires(OP == E_Operations_REPLACE || OP == E_Operations_ADD || OP == E_Operations_SUBTRACT || OP == E_Operations_REPLACE_DEFINED_ONLY)
__CPROVER_requires(this_->compositions.n <= MAXP)
__CPROVER_requires(g_listed ? (g_first < this_->compositions.n && this_->compositions.data[g_first] == composition_number && FORALL_K(NOT_EARLIER, 0))
                            : FORALL_K(NOT_LISTED, 0))
__CPROVER_assigns(wb_thrown, g_w_calls, g_pc_calls)
__CPROVER_ensures((!wb_thrown && !INRANGE) ==> (SAME(__CPROVER_return_value, composition) && g_w_calls == 0 && g_pc_calls == 0))
__CPROVER_ensures((!wb_thrown && INRANGE) ==> (g_w_calls == 1 && g_pc_calls == 1))
__CPROVER_ensures((!wb_thrown && INRANGE && !g_listed) ==> (OP == E_Operations_REPLACE ? __CPROVER_return_value == 0.0 : SAME(__CPROVER_return_value, composition)))
__CPROVER_ensures((!wb_thrown && INRANGE && g_listed && (OP == E_Operations_REPLACE || OP == E_Operations_REPLACE_DEFINED_ONLY)) ==> SAME(__CPROVER_return_value, W))
__CPROVER_ensures((!wb_thrown && INRANGE && g_listed && OP == E_Operations_ADD) ==> SAME(__CPROVER_return_value, FPXA(composition + W)))
__CPROVER_ensures((!wb_thrown && INRANGE && g_listed && OP == E_Operations_SUBTRACT) ==> SAME(__CPROVER_return_value, FPXA(composition - W)))
;
void h_composition_tian(void)
{
  struct MTYPE m; struct Point3 p; double depth, c, fmin, fmax; unsigned int number;
  HAVOC(g_model); HAVOC(g_world); HAVOC(g_pos); HAVOC(g_minl); HAVOC(g_maxl); HAVOC(g_depth); HAVOC(g_T); HAVOC(g_pc);
  HAVOC(g_listed); HAVOC(g_first); HAVOC(g_number);
#ifdef VARIANT_DIST
  struct Utilities_PointDistanceFromCurvedPlanes d; struct Features_FeatureUtilities_AdditionalParameters ap;
  TIAN_GET(&m, &p, depth, number, c, fmin, fmax, &d, &ap);
#else
  struct Objects_NaturalCoordinate nat;
  TIAN_GET(&m, &p, &nat, depth, number, c, fmin, fmax);
#endif
  REACHABLE();
}
