/* spec.h - specification vocabulary shared by all contract files */
#ifndef SPEC_H
#define SPEC_H
#include "wbshim.h"

_Bool wb_thrown;
size_t wb_g_slot;          /* arbitrary result slot (ghost index), chosen by the harness, never assigned */

/* SAME : equal as IEEE values including the sign of zero, or both NaN (NaN payloads not distinguished);
 *        usable on rvalues (formula results).
 * SAMEL: bit-identical, for two lvalues (memory cells, ghost variables); no temporaries, so it is usable in
 *        loop invariants and in any contract clause.  SAMEL implies SAME; SAME implies SAMEL except on NaN. */
#define SAME(a, b) (((a) == (b) && __CPROVER_signd(a) == __CPROVER_signd(b)) || ((a) != (a) && (b) != (b)))
#define SAMEL(a, b) (*(const unsigned long *)&(a) == *(const unsigned long *)&(b))
/* SAMEV(lv, v): the memory cell lv holds the computed value v, NaN-canonically (see WB_CANON): equal as values and,
 * if NaN, the canonical NaN - so that lv can be fed to further structurally named expressions */
#define SAMEV(lv, v) (SAME(lv, v) && ((lv) == (lv) || SAMEL(lv, wb_qnan_u.d)))
#define FINITE(x) ((x) == (x) && (x) != WB_INFINITY && (x) != -WB_INFINITY)
#define IS_BOOL(b) ((b) == 0 || (b) == 1)

/* layout of a batched request: number of output values of one property entry (property statement C01) */
#define WIDTH(p) ((p).e[0] == 3u ? (size_t)(p).e[2] * 10ul : (p).e[0] == 5u ? (size_t)3 : (size_t)1)
#define VALID_PROPERTY(p) ((p).e[0] >= 1u && (p).e[0] <= 5u)

/* Ghost layout tables for a request p[0..n) of at most MAXP entries (MAXP in {1,2,4,8,16,32,64}).  They are
 * *defined* by the precondition LAYOUT_OK (a definitional extension: for every request exactly one table
 * satisfies it), so every use is linear in MAXP:
 *   g_pre[k]   = sum of WIDTH(p[j]) for j < k        offset of block k in the batched answer
 *   g_total    = g_pre[n]                            announced number of values
 *   g_allvalid = every entry has a known property id
 *   g_invel    = slot wb_g_slot lies in the 3-slot block of a velocity entry; g_veloff = that block's offset */
#ifndef MAXP
#define MAXP 1
#endif
size_t g_pre[MAXP + 1];
size_t g_total, g_veloff;
unsigned char g_allvalid, g_invel;
#define SPEC_CAT_(a, b) a##b
#define SPEC_CAT(a, b) SPEC_CAT_(a, b)
#define PK_(p, n, j) ((n) <= (size_t)(j) || g_pre[(j) + 1] == g_pre[j] + WIDTH((p)[j]))
#define PK1(p, n, b) PK_(p, n, b)
#define PK2(p, n, b) (PK1(p, n, b) && PK1(p, n, (b) + 1))
#define PK4(p, n, b) (PK2(p, n, b) && PK2(p, n, (b) + 2))
#define PK8(p, n, b) (PK4(p, n, b) && PK4(p, n, (b) + 4))
#define PK16(p, n, b) (PK8(p, n, b) && PK8(p, n, (b) + 8))
#define PK32(p, n, b) (PK16(p, n, b) && PK16(p, n, (b) + 16))
#define PK64(p, n, b) (PK32(p, n, b) && PK32(p, n, (b) + 32))
#define AV_(p, n, j) ((n) <= (size_t)(j) || VALID_PROPERTY((p)[j]))
#define AV1(p, n, b) AV_(p, n, b)
#define AV2(p, n, b) (AV1(p, n, b) && AV1(p, n, (b) + 1))
#define AV4(p, n, b) (AV2(p, n, b) && AV2(p, n, (b) + 2))
#define AV8(p, n, b) (AV4(p, n, b) && AV4(p, n, (b) + 4))
#define AV16(p, n, b) (AV8(p, n, b) && AV8(p, n, (b) + 8))
#define AV32(p, n, b) (AV16(p, n, b) && AV16(p, n, (b) + 16))
#define AV64(p, n, b) (AV32(p, n, b) && AV32(p, n, (b) + 32))
#define IV_(p, n, s, j) ((n) > (size_t)(j) && (p)[j].e[0] == 5u && g_pre[j] <= (s) && (s) < g_pre[j] + 3)
#define IV1(p, n, s, b) IV_(p, n, s, b)
#define IV2(p, n, s, b) (IV1(p, n, s, b) || IV1(p, n, s, (b) + 1))
#define IV4(p, n, s, b) (IV2(p, n, s, b) || IV2(p, n, s, (b) + 2))
#define IV8(p, n, s, b) (IV4(p, n, s, b) || IV4(p, n, s, (b) + 4))
#define IV16(p, n, s, b) (IV8(p, n, s, b) || IV8(p, n, s, (b) + 8))
#define IV32(p, n, s, b) (IV16(p, n, s, b) || IV16(p, n, s, (b) + 16))
#define IV64(p, n, s, b) (IV32(p, n, s, b) || IV32(p, n, s, (b) + 32))
#define VO_(p, n, s, j) (!IV_(p, n, s, j) || g_veloff == g_pre[j])
#define VO1(p, n, s, b) VO_(p, n, s, b)
#define VO2(p, n, s, b) (VO1(p, n, s, b) && VO1(p, n, s, (b) + 1))
#define VO4(p, n, s, b) (VO2(p, n, s, b) && VO2(p, n, s, (b) + 2))
#define VO8(p, n, s, b) (VO4(p, n, s, b) && VO4(p, n, s, (b) + 4))
#define VO16(p, n, s, b) (VO8(p, n, s, b) && VO8(p, n, s, (b) + 8))
#define VO32(p, n, s, b) (VO16(p, n, s, b) && VO16(p, n, s, (b) + 16))
#define VO64(p, n, s, b) (VO32(p, n, s, b) && VO32(p, n, s, (b) + 32))
/* one requires clause each (kept separate on purpose) */
#define LAYOUT_PRE(p, n) (g_pre[0] == 0 && SPEC_CAT(PK, MAXP)(p, (size_t)(n), 0) && g_total == g_pre[n])
#define LAYOUT_VALID(p, n) (g_allvalid == (SPEC_CAT(AV, MAXP)(p, (size_t)(n), 0) ? 1 : 0))
#define LAYOUT_INVEL(p, n) (g_invel == (SPEC_CAT(IV, MAXP)(p, (size_t)(n), wb_g_slot, 0) ? 1 : 0))
#define LAYOUT_VELOFF(p, n) (SPEC_CAT(VO, MAXP)(p, (size_t)(n), wb_g_slot, 0))

/* FORALL_K(M, args...) : M(k, args...) for every k in [0, MAXP) - unrolled, no quantifier */
#define UA1(M, b, ...) M(b, __VA_ARGS__)
#define UA2(M, b, ...) (UA1(M, b, __VA_ARGS__) && UA1(M, (b) + 1, __VA_ARGS__))
#define UA4(M, b, ...) (UA2(M, b, __VA_ARGS__) && UA2(M, (b) + 2, __VA_ARGS__))
#define UA8(M, b, ...) (UA4(M, b, __VA_ARGS__) && UA4(M, (b) + 4, __VA_ARGS__))
#define UA16(M, b, ...) (UA8(M, b, __VA_ARGS__) && UA8(M, (b) + 8, __VA_ARGS__))
#define UA32(M, b, ...) (UA16(M, b, __VA_ARGS__) && UA16(M, (b) + 16, __VA_ARGS__))
#define UA64(M, b, ...) (UA32(M, b, __VA_ARGS__) && UA32(M, (b) + 32, __VA_ARGS__))
#define FORALL_K(M, ...) SPEC_CAT(UA, MAXP)(M, 0, __VA_ARGS__)

/* SUM_K(M, args...) : sum of M(k, args...) over k in [0, MAXP) - unrolled */
#define US1(M, b, ...) ((size_t)(M(b, __VA_ARGS__)))
#define US2(M, b, ...) (US1(M, b, __VA_ARGS__) + US1(M, (b) + 1, __VA_ARGS__))
#define US4(M, b, ...) (US2(M, b, __VA_ARGS__) + US2(M, (b) + 2, __VA_ARGS__))
#define US8(M, b, ...) (US4(M, b, __VA_ARGS__) + US4(M, (b) + 4, __VA_ARGS__))
#define US16(M, b, ...) (US8(M, b, __VA_ARGS__) + US8(M, (b) + 8, __VA_ARGS__))
#define US32(M, b, ...) (US16(M, b, __VA_ARGS__) + US16(M, (b) + 16, __VA_ARGS__))
#define US64(M, b, ...) (US32(M, b, __VA_ARGS__) + US32(M, (b) + 32, __VA_ARGS__))
#define SUM_K(M, ...) SPEC_CAT(US, MAXP)(M, 0, __VA_ARGS__)

/* C globals start at zero: every harness must make its ghost constants arbitrary first */
#define HAVOC(x) do { __typeof__(x) nd_; (x) = nd_; } while (0)
static inline void spec_havoc_layout(void)
{
  size_t a[MAXP + 1];
  __CPROVER_array_replace(g_pre, a);
  HAVOC(g_total); HAVOC(g_veloff); HAVOC(g_allvalid); HAVOC(g_invel); HAVOC(wb_g_slot);
}

/* vacuity guard: every harness ends in REACHABLE(); it must FAIL (the check treats a pass as contradiction) */
#define REACHABLE() __CPROVER_assert(0, "REACHABILITY-GUARD harness end is reachable")
#endif
