/* spec.h - specification vocabulary shared by all contract files */
#ifndef SPEC_H
#define SPEC_H
#include "wbshim.h"

_Bool wb_thrown;
size_t wb_g_slot;          /* arbitrary result slot (ghost index), chosen by the harness, never assigned */

#define SAME(a, b) ((a) == (b) || ((a) != (a) && (b) != (b)))   /* equality that holds for NaN == NaN */
#define FINITE(x) ((x) == (x) && (x) != WB_INFINITY && (x) != -WB_INFINITY)
#define IS_BOOL(b) ((b) == 0 || (b) == 1)

/* layout of a batched request: number of output values of one property entry (property statement C01) */
#define WIDTH(p) ((p).e[0] == 3u ? (size_t)(p).e[2] * 10ul : (p).e[0] == 5u ? (size_t)3 : (size_t)1)
#define VALID_PROPERTY(p) ((p).e[0] >= 1u && (p).e[0] <= 5u)

/* vacuity guard: every harness ends in REACHABLE(); it must FAIL (the check treats a pass as contradiction) */
#define REACHABLE() __CPROVER_assert(0, "REACHABILITY-GUARD harness end is reachable")
#endif
