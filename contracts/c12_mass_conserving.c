/* C12 (partial): SubductingPlateModels::Temperature::MassConserving::parse_entries - same ridge table as the oceanic
 * plate models (c12_ridge_tables.c): after parsing either an exception is pending or there is one spreading velocity
 * per ridge point, and the value list is read only inside its bounds. */
#include "spec.h"
size_t g_r;
struct vec_vec_Point2 g_ridges;
unsigned long g_refname;
#define RN(k) ((size_t)(k) < g_ridges.n ? g_ridges.data[k].n : (size_t)0)
#define PRE(k) (((k) > 0 ? RN(0) : (size_t)0) + ((k) > 1 ? RN(1) : (size_t)0) + ((k) > 2 ? RN(2) : (size_t)0))
#define SV (this_->ridge_spreading_velocities_at_each_ridge_point)
#define SVOK(k) ((size_t)(k) >= (size_t)(UPTO) || SV.data[k].n == g_ridges.data[k].n)
#include "gen.c"
#define MAY_THROW() do { _Bool t_; if (t_) wb_thrown = 1; } while (0)
double Parameters_get__string__ret_double(struct Parameters *this_, struct wb_string *name) { MAY_THROW(); double r; return r; }
_Bool Parameters_get__string__ret_bool(struct Parameters *this_, struct wb_string *name) { MAY_THROW(); _Bool r; return r; }
unsigned int Parameters_get__string__ret_unsignedint(struct Parameters *this_, struct wb_string *name) { MAY_THROW(); unsigned int r; return r; }
enum enum_CoordinateSystem CoordinateSystems_Interface_natural_coordinate_system(struct CoordinateSystems_Interface *this_) { enum enum_CoordinateSystem r; return r; }
struct wb_string Parameters_get__string__ret_basic_string_char__contract(struct Parameters *this_, struct wb_string *name)
__CPROVER_requires(name->h == WB_STR("operation").h || name->h == WB_STR("reference model name").h)
__CPROVER_assigns(wb_thrown)
__CPROVER_ensures(IS_BOOL(wb_thrown) && (name->h == WB_STR("reference model name").h ==> __CPROVER_return_value.h == g_refname))
;
struct pair_vec_double_vec_double Parameters_get_value_at_array__contract(struct Parameters *this_, struct wb_string *name)
__CPROVER_requires(name->h == WB_STR("spreading velocity").h)
__CPROVER_assigns(wb_thrown)
__CPROVER_ensures(IS_BOOL(wb_thrown) && __CPROVER_return_value.first.n <= WB_CAP_vec_double && __CPROVER_return_value.second.n <= WB_CAP_vec_double)
;
/* ASSUMED (unchecked): "subducting velocity" is a number or a non-empty list of non-empty lists */
struct vec_vec_double Parameters_get_vector_or_double__contract(struct Parameters *this_, struct wb_string *name)
__CPROVER_requires(name->h == WB_STR("subducting velocity").h)
__CPROVER_assigns(wb_thrown)
__CPROVER_ensures(IS_BOOL(wb_thrown) && __CPROVER_return_value.n >= 1 && __CPROVER_return_value.n <= WB_CAP_vec_vec_double)
__CPROVER_ensures(__CPROVER_return_value.data[0].n >= 1 && __CPROVER_return_value.data[0].n <= WB_CAP_vec_double && __CPROVER_return_value.data[1].n <= WB_CAP_vec_double && __CPROVER_return_value.data[2].n <= WB_CAP_vec_double)
;
struct vec_vec_Point2 Parameters_get_vector__string__ret_vector_Point_2__contract(struct Parameters *this_, struct wb_string *name)
__CPROVER_requires(name->h == WB_STR("ridge coordinates").h)
__CPROVER_assigns(wb_thrown)
__CPROVER_ensures(IS_BOOL(wb_thrown) && __CPROVER_return_value.n == g_ridges.n)
__CPROVER_ensures(__CPROVER_return_value.data[0].n == g_ridges.data[0].n && __CPROVER_return_value.data[1].n == g_ridges.data[1].n && __CPROVER_return_value.data[2].n == g_ridges.data[2].n)
;
#define MT Features_SubductingPlateModels_Temperature_MassConserving
void Features_SubductingPlateModels_Temperature_MassConserving_parse_entries__contract(struct MT *this_, struct Parameters *prm)
__CPROVER_requires(wb_thrown == 0 && SV.n == 0)
__CPROVER_requires(g_ridges.n <= 3 && g_ridges.data[0].n <= WB_CAP_vec_Point2 && g_ridges.data[1].n <= WB_CAP_vec_Point2 && g_ridges.data[2].n <= WB_CAP_vec_Point2)
__CPROVER_assigns(wb_thrown, this_->min_depth, this_->max_depth, this_->density, this_->subducting_velocities, this_->ridge_spreading_velocities,
                  this_->ridge_spreading_velocities_at_each_ridge_point, this_->mantle_coupling_depth, this_->forearc_cooling_factor, this_->thermal_conductivity,
                  this_->thermal_expansion_coefficient, this_->specific_heat, this_->thermal_diffusivity, this_->potential_mantle_temperature, this_->surface_temperature,
                  this_->taper_distance, this_->adiabatic_heating, this_->mid_oceanic_ridges, this_->operation, this_->reference_model_name, this_->apply_spline, this_->spline_n_points)
__CPROVER_ensures(!wb_thrown ==> (SV.n == g_ridges.n && this_->mid_oceanic_ridges.n == g_ridges.n))
__CPROVER_ensures((!wb_thrown && g_r < g_ridges.n) ==> (SV.data[g_r].n == g_ridges.data[g_r].n && this_->mid_oceanic_ridges.data[g_r].n == g_ridges.data[g_r].n))
__CPROVER_ensures((!wb_thrown && g_refname == WB_STR("plate model").h) ==> this_->reference_model_name == E_ReferenceModelName_plate_model)
__CPROVER_ensures((!wb_thrown && g_refname == WB_STR("half space model").h) ==> this_->reference_model_name == E_ReferenceModelName_half_space_model)
;
void h_mass_conserving_parse(void)
{
  struct World w; struct MT m; struct Parameters prm; struct CoordinateSystems_Interface cs;
  prm.coordinate_system = &cs; m.base_.world = &w;
  HAVOC(g_r); HAVOC(g_ridges); HAVOC(g_refname);
  Features_SubductingPlateModels_Temperature_MassConserving_parse_entries(&m, &prm);
  REACHABLE();
}
