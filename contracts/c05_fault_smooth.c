/* C05: smooth composition model of the fault.  Documented parameters: "center fractions: the composition fraction at the
 * center of the fault", "side fractions: the composition fraction at the sides of this feature", "side distance fault center: the
 * distance over which the composition is reduced from 1 to 0".  Hence, for the requested composition listed at first index j,
 *     value = side[j] + (center[j] - side[j]) * S,   S = (1 - tanh(10*(distance - side distance/2)/side distance))/2
 * (S is 1 at the centre and 0 at the side distance; its tanh form is taken from the code, the blend of the two fractions from the
 * documentation), combined with the incoming value by the operation; not listed: "replace" -> 0, otherwise the incoming value.
 * The documented "min distance fault center" is not used by the code and not part of this contract.
 */
#include "spec.h"
#define MTYPE Features_FaultModels_Composition_Smooth
const void *g_model;
unsigned char g_listed; size_t g_first; unsigned int g_number;
#define MODEL ((struct MTYPE *)g_model)
#define NOT_EARLIER(k, dummy) ((size_t)(k) >= g_first || (size_t)(k) >= MODEL->compositions.n || MODEL->compositions.data[k] != g_number)
#define NOT_LISTED(k, dummy) ((size_t)(k) >= MODEL->compositions.n || MODEL->compositions.data[k] != g_number)
#include "gen.c"
#define DIST (dist->distance_from_plane)
#define INRANGE 1
#define OP (this_->operation)
#define VALUE FPXA(this_->side_fraction.data[g_first] + (this_->center_fraction.data[g_first] - this_->side_fraction.data[g_first]) * (1 - tanh(10 * (DIST - this_->side_distance / 2) / this_->side_distance)) / 2)
double Features_FaultModels_Composition_Smooth_get_composition__contract(struct MTYPE *this_, struct Point3 *position, double depth, unsigned int composition_number,
    double composition, double feature_min_depth, double feature_max_depth, struct Utilities_PointDistanceFromCurvedPlanes *dist, struct Features_FeatureUtilities_AdditionalParameters *ap)
__CPROVER_requires(g_model == this_ && g_number == composition_number && wb_thrown == 0)
__CPROVER_requires(OP == E_Operations_REPLACE || OP == E_Operations_ADD || OP == E_Operations_SUBTRACT || OP == E_Operations_REPLACE_DEFINED_ONLY)
/* representation invariant (ASSUMED: parse_entries does not check it): one center and one side fraction per listed composition */
__CPROVER_requires(this_->compositions.n <= MAXP && this_->center_fraction.n == this_->compositions.n && this_->side_fraction.n == this_->compositions.n)
__CPROVER_requires(g_listed ? (g_first < this_->compositions.n && this_->compositions.data[g_first] == composition_number && FORALL_K(NOT_EARLIER, 0))
                            : FORALL_K(NOT_LISTED, 0))
__CPROVER_assigns(wb_thrown)
__CPROVER_ensures((!wb_thrown && !INRANGE) ==> SAME(__CPROVER_return_value, composition))
__CPROVER_ensures((!wb_thrown && INRANGE && !g_listed) ==> (OP == E_Operations_REPLACE ? __CPROVER_return_value == 0.0 : SAME(__CPROVER_return_value, composition)))
__CPROVER_ensures((!wb_thrown && INRANGE && g_listed && (OP == E_Operations_REPLACE || OP == E_Operations_REPLACE_DEFINED_ONLY)) ==> SAME(__CPROVER_return_value, VALUE))
__CPROVER_ensures((!wb_thrown && INRANGE && g_listed && OP == E_Operations_ADD) ==> SAME(__CPROVER_return_value, FPXA(composition + VALUE)))
__CPROVER_ensures((!wb_thrown && INRANGE && g_listed && OP == E_Operations_SUBTRACT) ==> SAME(__CPROVER_return_value, FPXA(composition - VALUE)))
;
void h_fault_smooth(void)
{
  struct MTYPE m; struct Point3 p; double depth, c, fmin, fmax; unsigned int number;
  struct Utilities_PointDistanceFromCurvedPlanes d; struct Features_FeatureUtilities_AdditionalParameters ap;
  HAVOC(g_model); HAVOC(g_listed); HAVOC(g_first); HAVOC(g_number);
  Features_FaultModels_Composition_Smooth_get_composition(&m, &p, depth, number, c, fmin, fmax, &d, &ap);
  REACHABLE();
}
