/* C05: half-space cooling model of the oceanic plate.  Inside its own (global and local) depth range
 *     T = apply(operation, incoming, Tb + (age > 0 ? (Ttop - Tb) * erfc(depth / (2*sqrt(kappa*age))) : 0))
 * with age = (distance to the ridge) / (spreading velocity at the nearest ridge point) - the two answers of
 * calculate_ridge_distance_and_spreading (unit ridge_distance), asked with the model's ridge table, a single zero
 * subducting velocity and a single zero migration time - kappa the world's thermal diffusivity, and a negative
 * bottom temperature meaning the adiabatic temperature Tp*exp(((alpha*g)/cp)*depth).  Outside the range: the incoming value. */
#include "spec.h"
const void *g_model; double g_minl, g_maxl, g_vel, g_dist;
#define MT Features_OceanicPlateModels_Temperature_HalfSpaceModel
#define MODEL ((struct MT *)g_model)
#include "gen.c"
struct Point2 Objects_NaturalCoordinate_get_surface_point__contract(struct Objects_NaturalCoordinate *this_)
__CPROVER_requires(1) __CPROVER_assigns() __CPROVER_ensures(1)
;
struct Objects_SurfaceValueInfo Objects_Surface_local_value__contract(struct Objects_Surface *this_, struct Point2 *check_point)
__CPROVER_requires(this_ == &MODEL->min_depth_surface || this_ == &MODEL->max_depth_surface)
__CPROVER_assigns(wb_thrown)
__CPROVER_ensures(IS_BOOL(wb_thrown))
__CPROVER_ensures(this_ == &MODEL->min_depth_surface ==> SAMEL(__CPROVER_return_value.interpolated_value, g_minl))
__CPROVER_ensures(this_ == &MODEL->max_depth_surface ==> SAMEL(__CPROVER_return_value.interpolated_value, g_maxl))
;
struct Objects_NaturalCoordinate Objects_NaturalCoordinate_ctor__Point_3_CoordinateSystems_Interf__contract(struct Point3 *position, struct CoordinateSystems_Interface *coordinate_system_)
__CPROVER_requires(1) __CPROVER_assigns(wb_thrown)
__CPROVER_ensures(IS_BOOL(wb_thrown) && (__CPROVER_return_value.coordinate_system == E_CoordinateSystem_cartesian || __CPROVER_return_value.coordinate_system == E_CoordinateSystem_spherical))
;
/* the ridge look-up (C05/ridge_distance): asked for this model's ridges with one zero subducting velocity and one zero migration time */
struct vec_double Utilities_calculate_ridge_distance_and_spreading__contract(struct vec_vec_Point2 mid_oceanic_ridges, struct vec_vec_double mid_oceanic_spreading_velocities,
    struct CoordinateSystems_Interface **coordinate_system, struct Objects_NaturalCoordinate *nat_at_min_depth, struct vec_vec_double *subducting_plate_velocities, struct vec_double *ridge_migration_times)
__CPROVER_requires(mid_oceanic_ridges.n == MODEL->mid_oceanic_ridges.n && mid_oceanic_spreading_velocities.n == MODEL->spreading_velocities_at_each_ridge_point.n)
__CPROVER_requires(subducting_plate_velocities->n == 1 && subducting_plate_velocities->data[0].n == 1 && subducting_plate_velocities->data[0].data[0] == 0.0)
__CPROVER_requires(ridge_migration_times->n == 1 && ridge_migration_times->data[0] == 0.0)
__CPROVER_assigns(wb_thrown)
__CPROVER_ensures(IS_BOOL(wb_thrown) && __CPROVER_return_value.n == 4 && SAMEL(__CPROVER_return_value.data[0], g_vel) && SAMEL(__CPROVER_return_value.data[1], g_dist))
;
#define MINL (this_->min_depth_surface.constant_value ? this_->min_depth : g_minl)
#define MAXL (this_->max_depth_surface.constant_value ? this_->max_depth : g_maxl)
#define INRANGE (depth <= this_->max_depth && depth >= this_->min_depth && depth <= MAXL && depth >= MINL)
#define WORLD (this_->base_.world)
struct { double ad, age, cool, newt; } g_v;
#define TB (this_->bottom_temperature < 0.0 ? g_v.ad : this_->bottom_temperature)
#define COOL (g_v.age > 0.0 ? g_v.cool : 0.0)
#define DEFS (SAMEV(g_v.ad, FPXA(WORLD->potential_mantle_temperature * exp(((WORLD->thermal_expansion_coefficient * gravity) / WORLD->specific_heat) * depth))) && \
              SAMEV(g_v.age, FPXA(g_dist / g_vel)) && \
              SAMEV(g_v.cool, FPXA((this_->top_temperature - TB) * erfc(depth / (2 * sqrt(WORLD->thermal_diffusivity * g_v.age))))) && \
              SAMEV(g_v.newt, FPXA(TB + COOL)))
#define NEWT g_v.newt
#define OP (this_->operation)
#define IS_REPLACE (OP == E_Operations_REPLACE || OP == E_Operations_REPLACE_DEFINED_ONLY)
double Features_OceanicPlateModels_Temperature_HalfSpaceModel_get_temperature__contract(struct MT *this_, struct Point3 *position, struct Objects_NaturalCoordinate *nat,
    double depth, double gravity, double temperature_, double feature_min_depth, double feature_max_depth)
__CPROVER_requires(g_model == this_ && wb_thrown == 0)
__CPROVER_requires(IS_BOOL(this_->min_depth_surface.constant_value) && IS_BOOL(this_->max_depth_surface.constant_value))
__CPROVER_requires(OP == E_Operations_REPLACE || OP == E_Operations_ADD || OP == E_Operations_SUBTRACT || OP == E_Operations_REPLACE_DEFINED_ONLY)
__CPROVER_requires(DEFS)
__CPROVER_assigns(wb_thrown)
__CPROVER_ensures((!wb_thrown && !INRANGE) ==> SAME(__CPROVER_return_value, temperature_))
__CPROVER_ensures((!wb_thrown && INRANGE && IS_REPLACE) ==> SAME(__CPROVER_return_value, NEWT))
__CPROVER_ensures((!wb_thrown && INRANGE && OP == E_Operations_ADD) ==> SAME(__CPROVER_return_value, FPXA(temperature_ + NEWT)))
__CPROVER_ensures((!wb_thrown && INRANGE && OP == E_Operations_SUBTRACT) ==> SAME(__CPROVER_return_value, FPXA(temperature_ - NEWT)))
;
void h_half_space(void)
{
  struct World w; struct CoordinateSystems_Interface cs; struct MT m; struct Point3 p; struct Objects_NaturalCoordinate nat; double d, g, t, a, b;
  m.base_.world = &w; w.parameters.coordinate_system = &cs;
  HAVOC(g_model); HAVOC(g_minl); HAVOC(g_maxl); HAVOC(g_vel); HAVOC(g_dist); HAVOC(g_v);
  Features_OceanicPlateModels_Temperature_HalfSpaceModel_get_temperature(&m, &p, &nat, d, g, t, a, b);
  REACHABLE();
}
