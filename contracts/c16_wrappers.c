/* C16: the C interface (wrapper_c.cc) and the C++ wrapper class (wrapper_cpp.cc) are transparent.
 * Every query wrapper calls the corresponding World method exactly once on the world it was given, with the
 * position {x[,y],z}, the depth, the composition number / the request copied element-wise, and delivers the
 * result unchanged; create_world hands every argument to the World constructor unchanged.
 * One unit per wrapper function (-DUNIT_<name>).
 */
#include "spec.h"
struct World *g_world;                    /* the world behind the handle */
double g_x, g_y, g_z, g_depth;            /* the query as given to the wrapper */
unsigned int g_comp;
int g_calls;                              /* calls of the wrapped World method */
double g_answer;                          /* what the World method answers (scalar queries) */
size_t g_k;                               /* arbitrary index into the request */
const struct arr_uint_3 *g_req;           /* the caller's request array */
unsigned int g_nreq;
size_t g_rn;                              /* size of the vector the World method returns */
double g_before, g_old;                   /* its value at slot wb_g_slot / the caller's buffer value there before the call */
unsigned int g_size_answer;
const char *g_file, *g_outdir; _Bool g_has; unsigned long g_seed; int g_token;
#include "gen.c"

#define POS2_OK(p) (SAMEL((p)->e[0], g_x) && SAMEL((p)->e[1], g_z))
#define POS3_OK(p) (SAMEL((p)->e[0], g_x) && SAMEL((p)->e[1], g_y) && SAMEL((p)->e[2], g_z))
#define REQ_OK(v) ((v)->n == g_nreq && (g_k < g_nreq ==> ((v)->data[g_k].e[0] == g_req[g_k].e[0] && (v)->data[g_k].e[1] == g_req[g_k].e[1] && (v)->data[g_k].e[2] == g_req[g_k].e[2])))

/* ------------------------------------------------------------------ interface contracts of the wrapped World methods */
#if defined(UNIT_c_temperature_2d) || defined(UNIT_cpp_temperature_2d)
double World_temperature_2d__contract(struct World *this_, struct arr_double_2 *point, double depth)
__CPROVER_requires(this_ == g_world && g_calls == 0 && __CPROVER_r_ok(point, sizeof(*point)))
__CPROVER_requires(POS2_OK(point))
__CPROVER_requires(SAMEL(depth, g_depth))
__CPROVER_assigns(g_calls, wb_thrown)
__CPROVER_ensures(g_calls == 1 && IS_BOOL(wb_thrown) && SAMEL(__CPROVER_return_value, g_answer))
;
#endif
#if defined(UNIT_c_temperature_3d) || defined(UNIT_cpp_temperature_3d)
double World_temperature_3d__contract(struct World *this_, struct arr_double_3 *point, double depth)
__CPROVER_requires(this_ == g_world && g_calls == 0 && __CPROVER_r_ok(point, sizeof(*point)))
__CPROVER_requires(POS3_OK(point))
__CPROVER_requires(SAMEL(depth, g_depth))
__CPROVER_assigns(g_calls, wb_thrown)
__CPROVER_ensures(g_calls == 1 && IS_BOOL(wb_thrown) && SAMEL(__CPROVER_return_value, g_answer))
;
#endif
#if defined(UNIT_c_composition_2d) || defined(UNIT_cpp_composition_2d)
double World_composition_2d__contract(struct World *this_, struct arr_double_2 *point, double depth, unsigned int composition_number)
__CPROVER_requires(this_ == g_world && g_calls == 0 && composition_number == g_comp && __CPROVER_r_ok(point, sizeof(*point)))
__CPROVER_requires(POS2_OK(point))
__CPROVER_requires(SAMEL(depth, g_depth))
__CPROVER_assigns(g_calls, wb_thrown)
__CPROVER_ensures(g_calls == 1 && IS_BOOL(wb_thrown) && SAMEL(__CPROVER_return_value, g_answer))
;
#endif
#if defined(UNIT_c_composition_3d) || defined(UNIT_cpp_composition_3d)
double World_composition_3d__contract(struct World *this_, struct arr_double_3 *point, double depth, unsigned int composition_number)
__CPROVER_requires(this_ == g_world && g_calls == 0 && composition_number == g_comp && __CPROVER_r_ok(point, sizeof(*point)))
__CPROVER_requires(POS3_OK(point))
__CPROVER_requires(SAMEL(depth, g_depth))
__CPROVER_assigns(g_calls, wb_thrown)
__CPROVER_ensures(g_calls == 1 && IS_BOOL(wb_thrown) && SAMEL(__CPROVER_return_value, g_answer))
;
#endif
#if defined(UNIT_c_properties_2d)
struct vec_double World_properties_2d__contract(struct World *this_, struct arr_double_2 *point, double depth, struct vec_arr_uint_3 *properties)
__CPROVER_requires(this_ == g_world && g_calls == 0 && __CPROVER_r_ok(point, sizeof(*point)))
__CPROVER_requires(POS2_OK(point))
__CPROVER_requires(SAMEL(depth, g_depth))
__CPROVER_requires(REQ_OK(properties))
__CPROVER_assigns(g_calls, wb_thrown)
__CPROVER_ensures(g_calls == 1 && IS_BOOL(wb_thrown) && __CPROVER_return_value.n == g_rn)
__CPROVER_ensures(wb_g_slot < g_rn ==> SAMEL(__CPROVER_return_value.data[wb_g_slot], g_before))
;
#endif
#if defined(UNIT_c_properties_3d)
struct vec_double World_properties_3d__contract(struct World *this_, struct arr_double_3 *point, double depth, struct vec_arr_uint_3 *properties)
__CPROVER_requires(this_ == g_world && g_calls == 0 && __CPROVER_r_ok(point, sizeof(*point)))
__CPROVER_requires(POS3_OK(point))
__CPROVER_requires(SAMEL(depth, g_depth))
__CPROVER_requires(REQ_OK(properties))
__CPROVER_assigns(g_calls, wb_thrown)
__CPROVER_ensures(g_calls == 1 && IS_BOOL(wb_thrown) && __CPROVER_return_value.n == g_rn)
__CPROVER_ensures(wb_g_slot < g_rn ==> SAMEL(__CPROVER_return_value.data[wb_g_slot], g_before))
;
#endif
#if defined(UNIT_c_properties_output_size)
unsigned int World_properties_output_size__contract(struct World *this_, struct vec_arr_uint_3 *properties)
__CPROVER_requires(this_ == g_world && g_calls == 0)
__CPROVER_requires(REQ_OK(properties))
__CPROVER_assigns(g_calls, wb_thrown)
__CPROVER_ensures(g_calls == 1 && IS_BOOL(wb_thrown) && __CPROVER_return_value == g_size_answer)
;
#endif
#if defined(UNIT_c_create_world)
struct World World_ctor__contract(struct wb_string filename, _Bool has_output_dir, struct wb_string *output_dir, unsigned long random_number_seed, _Bool limit_debug_consistency_checks_)
/* every argument of create_world reaches the constructor unchanged */
__CPROVER_requires(g_calls == 0 && filename.h == __CPROVER_uninterpreted_str_of_cstr(g_file))
__CPROVER_requires(has_output_dir == g_has && random_number_seed == g_seed)
__CPROVER_requires(output_dir->h == (g_outdir != 0 ? __CPROVER_uninterpreted_str_of_cstr(g_outdir) : 0ul))
__CPROVER_assigns(g_calls, wb_thrown)
__CPROVER_ensures(g_calls == 1 && IS_BOOL(wb_thrown) && __CPROVER_return_value.MPI_RANK == g_token)
;
#endif

/* ------------------------------------------------------------------ the wrappers */
#if defined(UNIT_c_temperature_2d)
void temperature_2d__contract(void *ptr_ptr_world, double x, double z, double depth, double *temperature)
__CPROVER_requires((void *)g_world == ptr_ptr_world && g_calls == 0 && wb_thrown == 0 && __CPROVER_w_ok(temperature, sizeof(double)))
__CPROVER_requires(SAMEL(g_x, x))
__CPROVER_requires(SAMEL(g_z, z))
__CPROVER_requires(SAMEL(g_depth, depth))
__CPROVER_assigns(g_calls, wb_thrown, *temperature)
__CPROVER_ensures(!wb_thrown ==> (g_calls == 1 && SAMEL(*temperature, g_answer)))
;
void h_temperature_2d(void) { struct World w; double x, z, d, t; HAVOC(g_world); HAVOC(g_x); HAVOC(g_z); HAVOC(g_depth); HAVOC(g_answer);
  temperature_2d((void *)&w, x, z, d, &t); REACHABLE(); }
#endif
#if defined(UNIT_c_temperature_3d)
void temperature_3d__contract(void *ptr_ptr_world, double x, double y, double z, double depth, double *temperature)
__CPROVER_requires((void *)g_world == ptr_ptr_world && g_calls == 0 && wb_thrown == 0 && __CPROVER_w_ok(temperature, sizeof(double)))
__CPROVER_requires(SAMEL(g_x, x))
__CPROVER_requires(SAMEL(g_y, y))
__CPROVER_requires(SAMEL(g_z, z))
__CPROVER_requires(SAMEL(g_depth, depth))
__CPROVER_assigns(g_calls, wb_thrown, *temperature)
__CPROVER_ensures(!wb_thrown ==> (g_calls == 1 && SAMEL(*temperature, g_answer)))
;
void h_temperature_3d(void) { struct World w; double x, y, z, d, t; HAVOC(g_world); HAVOC(g_x); HAVOC(g_y); HAVOC(g_z); HAVOC(g_depth); HAVOC(g_answer);
  temperature_3d((void *)&w, x, y, z, d, &t); REACHABLE(); }
#endif
#if defined(UNIT_c_composition_2d)
void composition_2d__contract(void *ptr_ptr_world, double x, double z, double depth, unsigned int composition_number, double *composition)
__CPROVER_requires((void *)g_world == ptr_ptr_world && g_calls == 0 && wb_thrown == 0 && g_comp == composition_number && __CPROVER_w_ok(composition, sizeof(double)))
__CPROVER_requires(SAMEL(g_x, x))
__CPROVER_requires(SAMEL(g_z, z))
__CPROVER_requires(SAMEL(g_depth, depth))
__CPROVER_assigns(g_calls, wb_thrown, *composition)
__CPROVER_ensures(!wb_thrown ==> (g_calls == 1 && SAMEL(*composition, g_answer)))
;
void h_composition_2d(void) { struct World w; double x, z, d, t; unsigned int c; HAVOC(g_world); HAVOC(g_x); HAVOC(g_z); HAVOC(g_depth); HAVOC(g_answer); HAVOC(g_comp);
  composition_2d((void *)&w, x, z, d, c, &t); REACHABLE(); }
#endif
#if defined(UNIT_c_composition_3d)
void composition_3d__contract(void *ptr_ptr_world, double x, double y, double z, double depth, unsigned int composition_number, double *composition)
__CPROVER_requires((void *)g_world == ptr_ptr_world && g_calls == 0 && wb_thrown == 0 && g_comp == composition_number && __CPROVER_w_ok(composition, sizeof(double)))
__CPROVER_requires(SAMEL(g_x, x))
__CPROVER_requires(SAMEL(g_y, y))
__CPROVER_requires(SAMEL(g_z, z))
__CPROVER_requires(SAMEL(g_depth, depth))
__CPROVER_assigns(g_calls, wb_thrown, *composition)
__CPROVER_ensures(!wb_thrown ==> (g_calls == 1 && SAMEL(*composition, g_answer)))
;
void h_composition_3d(void) { struct World w; double x, y, z, d, t; unsigned int c; HAVOC(g_world); HAVOC(g_x); HAVOC(g_y); HAVOC(g_z); HAVOC(g_depth); HAVOC(g_answer); HAVOC(g_comp);
  composition_3d((void *)&w, x, y, z, d, c, &t); REACHABLE(); }
#endif
#if defined(UNIT_c_properties_output_size)
unsigned int properties_output_size__contract(void *ptr_ptr_world, struct arr_uint_3 *properties_, unsigned int n_properties)
__CPROVER_requires((void *)g_world == ptr_ptr_world && g_calls == 0 && wb_thrown == 0 && g_req == properties_ && g_nreq == n_properties && n_properties <= MAXP)
__CPROVER_assigns(g_calls, wb_thrown)
__CPROVER_ensures(!wb_thrown ==> (g_calls == 1 && __CPROVER_return_value == g_size_answer))
;
void h_properties_output_size(void) { struct World w; struct arr_uint_3 req[MAXP]; unsigned int n; HAVOC(g_world); HAVOC(g_req); HAVOC(g_nreq); HAVOC(g_k); HAVOC(g_size_answer);
  properties_output_size((void *)&w, req, n); REACHABLE(); }
#endif
#if defined(UNIT_c_properties_2d) || defined(UNIT_c_properties_3d)
#if defined(UNIT_c_properties_2d)
void properties_2d__contract(void *ptr_ptr_world, double x, double z, double depth, struct arr_uint_3 *properties_, unsigned int n_properties, double *values)
#else
void properties_3d__contract(void *ptr_ptr_world, double x, double y, double z, double depth, struct arr_uint_3 *properties_, unsigned int n_properties, double *values)
#endif
__CPROVER_requires((void *)g_world == ptr_ptr_world && g_calls == 0 && wb_thrown == 0 && g_req == properties_ && g_nreq == n_properties && n_properties <= MAXP)
__CPROVER_requires(g_rn <= WB_CAP_vec_double && __CPROVER_w_ok(values, sizeof(double) * WB_CAP_vec_double))
__CPROVER_requires(SAMEL(g_x, x))
#if defined(UNIT_c_properties_3d)
__CPROVER_requires(SAMEL(g_y, y))
#endif
__CPROVER_requires(SAMEL(g_z, z))
__CPROVER_requires(SAMEL(g_depth, depth))
__CPROVER_requires(wb_g_slot < WB_CAP_vec_double && SAMEL(g_old, values[wb_g_slot]))
__CPROVER_assigns(g_calls, wb_thrown, __CPROVER_object_whole(values))
__CPROVER_ensures(!wb_thrown ==> g_calls == 1)
/* the returned values are delivered unchanged, nothing beyond them is written */
__CPROVER_ensures((!wb_thrown && wb_g_slot < g_rn) ==> SAMEL(values[wb_g_slot], g_before))
__CPROVER_ensures((!wb_thrown && wb_g_slot >= g_rn) ==> SAMEL(values[wb_g_slot], g_old))
;
#if defined(UNIT_c_properties_2d)
void h_properties_2d(void)
#else
void h_properties_3d(void)
#endif
{ struct World w; struct arr_uint_3 req[MAXP]; unsigned int n; double x, y, z, d; double vals[WB_CAP_vec_double];
  HAVOC(g_world); HAVOC(g_req); HAVOC(g_nreq); HAVOC(g_k); HAVOC(g_rn); HAVOC(g_before); HAVOC(g_old); HAVOC(wb_g_slot);
  HAVOC(g_x); HAVOC(g_y); HAVOC(g_z); HAVOC(g_depth);
#if defined(UNIT_c_properties_2d)
  properties_2d((void *)&w, x, z, d, req, n, vals);
#else
  properties_3d((void *)&w, x, y, z, d, req, n, vals);
#endif
  REACHABLE(); }
#endif
#if defined(UNIT_c_create_world)
void create_world__contract(void **ptr_ptr_world, char *world_builder_file, _Bool *has_output_dir_, char *output_dir_, unsigned long random_number_seed)
__CPROVER_requires(__CPROVER_w_ok(ptr_ptr_world, sizeof(void *)) && g_calls == 0 && wb_thrown == 0)
__CPROVER_requires(has_output_dir_ == 0 || (__CPROVER_r_ok(has_output_dir_, 1) && IS_BOOL(*has_output_dir_)))
__CPROVER_requires(output_dir_ == 0 || __CPROVER_r_ok(output_dir_, 1))
__CPROVER_requires(g_file == world_builder_file && g_outdir == output_dir_ && g_seed == random_number_seed)
__CPROVER_requires(g_has == (has_output_dir_ != 0 ? *has_output_dir_ : 0))
__CPROVER_assigns(g_calls, wb_thrown, *ptr_ptr_world)
__CPROVER_ensures(!wb_thrown ==> (g_calls == 1 && *ptr_ptr_world != 0 && ((struct World *)*ptr_ptr_world)->MPI_RANK == g_token))
;
void h_create_world(void) { void *handle; char file[8]; char dir[8]; _Bool has; unsigned long seed; _Bool use_has, use_dir;
  HAVOC(g_file); HAVOC(g_outdir); HAVOC(g_has); HAVOC(g_seed); HAVOC(g_token);
  create_world(&handle, file, use_has ? &has : (_Bool *)0, use_dir ? &dir[0] : (char *)0, seed); REACHABLE(); }
#endif
#if defined(UNIT_c_release_world)
void release_world__contract(void *ptr_ptr_world)
__CPROVER_requires(__CPROVER_is_fresh(ptr_ptr_world, sizeof(struct World)))
__CPROVER_assigns()
__CPROVER_frees(ptr_ptr_world)
__CPROVER_ensures(__CPROVER_was_freed(ptr_ptr_world))
;
void h_release_world(void) { void *p; release_world(p); REACHABLE(); }
#endif

#if defined(UNIT_cpp_ctor)
/* WorldBuilderWrapper(filename, has_output_dir, output_dir, seed): one World is constructed with exactly these arguments (and
 * limit_debug_consistency_checks at its default true) and becomes the world behind the handle */
unsigned long g_fileh, g_dirh;
struct World World_ctor__contract(struct wb_string filename, _Bool has_output_dir, struct wb_string *output_dir, unsigned long random_number_seed, _Bool limit_debug_consistency_checks_)
__CPROVER_requires(g_calls == 0 && filename.h == g_fileh && has_output_dir == g_has && output_dir->h == g_dirh && random_number_seed == g_seed && limit_debug_consistency_checks_ == 1)
__CPROVER_assigns(g_calls, wb_thrown)
__CPROVER_ensures(g_calls == 1 && IS_BOOL(wb_thrown) && __CPROVER_return_value.MPI_RANK == g_token)
;
struct wrapper_cpp_WorldBuilderWrapper cpp_ctor__contract(struct wb_string filename, _Bool has_output_dir, struct wb_string *output_dir, unsigned long random_number_seed)
__CPROVER_requires(g_calls == 0 && wb_thrown == 0 && filename.h == g_fileh && has_output_dir == g_has && output_dir->h == g_dirh && random_number_seed == g_seed)
__CPROVER_assigns(g_calls, wb_thrown)
__CPROVER_ensures(!wb_thrown ==> (g_calls == 1 && __CPROVER_return_value.ptr_ptr_world != 0 && ((struct World *)__CPROVER_return_value.ptr_ptr_world)->MPI_RANK == g_token))
;
void h_cpp_ctor(void) { struct wb_string f, d; _Bool has; unsigned long seed; HAVOC(g_fileh); HAVOC(g_dirh); HAVOC(g_has); HAVOC(g_seed); HAVOC(g_token);
  cpp_ctor(f, has, &d, seed); REACHABLE(); }
#endif

/* ------------------------------------------------------------------ C++ wrapper class */
#if defined(UNIT_cpp_temperature_2d) || defined(UNIT_cpp_temperature_3d) || defined(UNIT_cpp_composition_2d) || defined(UNIT_cpp_composition_3d)
#if defined(UNIT_cpp_temperature_2d)
double cpp_temperature_2d__contract(struct wrapper_cpp_WorldBuilderWrapper *this_, double x, double z, double depth)
#elif defined(UNIT_cpp_temperature_3d)
double cpp_temperature_3d__contract(struct wrapper_cpp_WorldBuilderWrapper *this_, double x, double y, double z, double depth)
#elif defined(UNIT_cpp_composition_2d)
double cpp_composition_2d__contract(struct wrapper_cpp_WorldBuilderWrapper *this_, double x, double z, double depth, unsigned int composition_number)
#else
double cpp_composition_3d__contract(struct wrapper_cpp_WorldBuilderWrapper *this_, double x, double y, double z, double depth, unsigned int composition_number)
#endif
__CPROVER_requires((void *)g_world == this_->ptr_ptr_world && g_calls == 0 && wb_thrown == 0)
#if defined(UNIT_cpp_composition_2d) || defined(UNIT_cpp_composition_3d)
__CPROVER_requires(g_comp == composition_number)
#endif
__CPROVER_requires(SAMEL(g_x, x))
#if defined(UNIT_cpp_temperature_3d) || defined(UNIT_cpp_composition_3d)
__CPROVER_requires(SAMEL(g_y, y))
#endif
__CPROVER_requires(SAMEL(g_z, z))
__CPROVER_requires(SAMEL(g_depth, depth))
__CPROVER_assigns(g_calls, wb_thrown)
__CPROVER_ensures(!wb_thrown ==> (g_calls == 1 && SAMEL(__CPROVER_return_value, g_answer)))
;
void h_cpp(void) { struct World w; struct wrapper_cpp_WorldBuilderWrapper wr; double x, y, z, d; unsigned int c; wr.ptr_ptr_world = (void *)&w;
  HAVOC(g_world); HAVOC(g_x); HAVOC(g_y); HAVOC(g_z); HAVOC(g_depth); HAVOC(g_answer); HAVOC(g_comp);
#if defined(UNIT_cpp_temperature_2d)
  cpp_temperature_2d(&wr, x, z, d);
#elif defined(UNIT_cpp_temperature_3d)
  cpp_temperature_3d(&wr, x, y, z, d);
#elif defined(UNIT_cpp_composition_2d)
  cpp_composition_2d(&wr, x, z, d, c);
#else
  cpp_composition_3d(&wr, x, y, z, d, c);
#endif
  REACHABLE(); }
#endif
