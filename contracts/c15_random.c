/* C15: random composition model of the area features (-DFAM=<family>).
 *  - the world's random number engine is the only state the model mutates and its only source of randomness
 *    (frame condition + the only non-deterministic callee is the distribution draw on that engine): equal
 *    histories give equal answers;
 *  - a draw is made exactly when the model applies (inside its depth range, composition listed), once;
 *  - the drawn value lies in [min value, max value) of the requested composition: its own pair when one pair per
 *    listed composition is configured, the single/first pair otherwise; replace returns it, add/subtract offset by it.
 */
#include "spec.h"
#define PASTE_(a, b) a##b
#define PASTE(a, b) PASTE_(a, b)
#define CAT3_(a, b, c) a##b##c
#define CAT3(a, b, c) CAT3_(a, b, c)
#define MTYPE CAT3(Features_, FAM, Models_Composition_Random)
#define MFUNC PASTE(MTYPE, _get_composition)
#define MCONTRACT PASTE(MTYPE, _get_composition__contract)
const void *g_model;
double g_minl, g_maxl;
unsigned char g_listed; size_t g_first; unsigned int g_number;
int g_draws; double g_drawn, g_lo, g_hi;      /* ghost: number of draws, the value drawn, the bounds it was drawn from */
#define MODEL ((struct MTYPE *)g_model)
#define NOT_EARLIER(k, dummy) ((size_t)(k) >= g_first || (size_t)(k) >= MODEL->compositions.n || MODEL->compositions.data[k] != g_number)
#define NOT_LISTED(k, dummy) ((size_t)(k) >= MODEL->compositions.n || MODEL->compositions.data[k] != g_number)
#include "gen.c"

struct Point2 Objects_NaturalCoordinate_get_surface_point__contract(struct Objects_NaturalCoordinate *this_)
__CPROVER_requires(1) __CPROVER_assigns() __CPROVER_ensures(1)
;
struct Objects_SurfaceValueInfo Objects_Surface_local_value__contract(struct Objects_Surface *this_, struct Point2 *check_point)
__CPROVER_requires(this_ == &MODEL->min_depth_surface || this_ == &MODEL->max_depth_surface)
__CPROVER_assigns(wb_thrown)
__CPROVER_ensures(IS_BOOL(wb_thrown))
__CPROVER_ensures(this_ == &MODEL->min_depth_surface ==> SAMEL(__CPROVER_return_value.interpolated_value, g_minl))
__CPROVER_ensures(this_ == &MODEL->max_depth_surface ==> SAMEL(__CPROVER_return_value.interpolated_value, g_maxl))
;
/* std::uniform_real_distribution<>(a,b)(engine): advances the engine, returns a value of [a, b) */
double wb_uniform_real_draw__contract(struct wb_uniform_real *dist, struct wb_mt19937 *engine)
__CPROVER_requires(engine == &MODEL->base_.world->random_number_engine && g_draws == 0)
__CPROVER_assigns(engine->state, g_draws, g_drawn, g_lo, g_hi)
__CPROVER_ensures(g_draws == 1 && SAMEL(g_lo, dist->a) && SAMEL(g_hi, dist->b) && SAMEL(__CPROVER_return_value, g_drawn))
__CPROVER_ensures(dist->a < dist->b ==> (dist->a <= g_drawn && g_drawn < dist->b))
;
#define MINL (this_->min_depth_surface.constant_value ? this_->min_depth : g_minl)
#define MAXL (this_->max_depth_surface.constant_value ? this_->max_depth : g_maxl)
#define INRANGE (depth <= this_->max_depth && depth >= this_->min_depth && depth <= MAXL && depth >= MINL)
#define OP (this_->operation)
#define BIDX ((this_->min_value.n == this_->compositions.n && this_->max_value.n == this_->compositions.n) ? g_first : (size_t)0)

double MCONTRACT(struct MTYPE *this_, struct Point3 *position, struct Objects_NaturalCoordinate *nat, double depth,
                 unsigned int composition_number, double composition, double feature_min_depth, double feature_max_depth)
__CPROVER_requires(g_model == this_ && g_number == composition_number && wb_thrown == 0 && g_draws == 0)
__CPROVER_requires(IS_BOOL(this_->min_depth_surface.constant_value) && IS_BOOL(this_->max_depth_surface.constant_value))
__CPROVER_requires(OP == E_Operations_REPLACE || OP == E_Operations_ADD || OP == E_Operations_SUBTRACT || OP == E_Operations_REPLACE_DEFINED_ONLY)
__CPROVER_requires(this_->compositions.n <= MAXP && this_->min_value.n >= 1 && this_->min_value.n <= MAXP && this_->max_value.n >= 1 && this_->max_value.n <= MAXP)
__CPROVER_requires(g_listed ? (g_first < this_->compositions.n && this_->compositions.data[g_first] == composition_number && FORALL_K(NOT_EARLIER, 0))
                            : FORALL_K(NOT_LISTED, 0))
/* the random number engine is the only state that changes */
__CPROVER_assigns(wb_thrown, this_->base_.world->random_number_engine.state, g_draws, g_drawn, g_lo, g_hi)
__CPROVER_ensures((!wb_thrown && !(INRANGE && g_listed)) ==> g_draws == 0)
__CPROVER_ensures((!wb_thrown && !INRANGE) ==> SAME(__CPROVER_return_value, composition))
__CPROVER_ensures((!wb_thrown && INRANGE && !g_listed) ==> (OP == E_Operations_REPLACE ? __CPROVER_return_value == 0.0 : SAME(__CPROVER_return_value, composition)))
/* exactly one draw, from the bounds configured for the requested composition */
__CPROVER_ensures((!wb_thrown && INRANGE && g_listed) ==> (g_draws == 1 && SAMEL(g_lo, this_->min_value.data[BIDX]) && SAMEL(g_hi, this_->max_value.data[BIDX])))
__CPROVER_ensures((!wb_thrown && INRANGE && g_listed && (OP == E_Operations_REPLACE || OP == E_Operations_REPLACE_DEFINED_ONLY)) ==> SAMEL(__CPROVER_return_value, g_drawn))
__CPROVER_ensures((!wb_thrown && INRANGE && g_listed && OP == E_Operations_ADD) ==> SAME(__CPROVER_return_value, FPXA(composition + g_drawn)))
__CPROVER_ensures((!wb_thrown && INRANGE && g_listed && OP == E_Operations_SUBTRACT) ==> SAME(__CPROVER_return_value, FPXA(composition - g_drawn)))
;
void h_composition_random(void)
{
  struct World w; struct MTYPE m; struct Point3 p; struct Objects_NaturalCoordinate nat; double depth, c, fmin, fmax; unsigned int number;
  m.base_.world = &w;
  HAVOC(g_model); HAVOC(g_minl); HAVOC(g_maxl); HAVOC(g_listed); HAVOC(g_first); HAVOC(g_number); HAVOC(g_drawn); HAVOC(g_lo); HAVOC(g_hi);
  MFUNC(&m, &p, &nat, depth, number, c, fmin, fmax);
  REACHABLE();
}
