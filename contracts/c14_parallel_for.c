/* C14: ThreadPool::parallel_for(start, end, func) partitions [start, end) exactly.
 * Launching std::thread(loop_function, a, b) is the ghost event WB_LAUNCH(a, b) (loop_function(a,b) runs func(k) for
 * a <= k < b: a three-line lambda, read by eye, listed as trusted).  For an arbitrary index g_k:
 *   g_k in [start, end)   =>  exactly one launched slice contains g_k
 *   g_k outside           =>  no launched slice contains it
 * every launched thread sits in its own pool slot and is joined before parallel_for returns.
 */
#include <stddef.h>
size_t g_k; size_t g_cnt; size_t g_launched, g_joined;
#define WB_LAUNCH(a, b) do { if ((a) <= g_k && g_k < (b)) g_cnt++; g_launched++; } while (0)
#define WB_JOIN(t) do { g_joined++; } while (0)
#include "spec.h"
#define SLOT_IDLE(k, tp) ((size_t)(k) >= (tp)->pool.n || !(tp)->pool.data[k].joinable)
#define LAUNCHED_BELOW(k, tp, i) ((size_t)(k) >= (tp)->pool.n || ((tp)->pool.data[k].joinable != 0) == ((size_t)(k) < (size_t)(i)))
#define JOINED_BELOW(k, tp, j) ((size_t)(k) >= (size_t)(j) || (size_t)(k) >= (tp)->pool.n || !(tp)->pool.data[k].joinable)
#define JCOUNT(k, tp, j) (((size_t)(k) >= (size_t)(j) && (size_t)(k) < (tp)->pool.n && (tp)->pool.data[k].joinable) ? 1 : 0)
#define COUNT_JOINABLE_FROM(tp, j) SUM_K(JCOUNT, tp, j)
#include "gen.c"

void parallel_for__contract(struct ThreadPool *this_, unsigned long start, unsigned long end, struct wb_lambda func)
__CPROVER_requires(this_->pool.n >= 1 && this_->pool.n <= WB_CAP_vec_wb_thread && start <= end && end < (1ul << 52))
__CPROVER_requires(g_cnt == 0 && g_launched == 0 && g_joined == 0 && wb_thrown == 0)
/* type invariant of a fresh pool: no slot holds a running thread */
__CPROVER_requires(FORALL_K(SLOT_IDLE, this_))
__CPROVER_assigns(g_cnt, g_launched, g_joined, __CPROVER_object_whole(this_))
__CPROVER_ensures((start <= g_k && g_k < end) ==> g_cnt == 1)
__CPROVER_ensures(!(start <= g_k && g_k < end) ==> g_cnt == 0)
__CPROVER_ensures(g_joined == g_launched && g_launched <= this_->pool.n)
__CPROVER_ensures(FORALL_K(SLOT_IDLE, this_))
;
void h_parallel_for(void) { struct ThreadPool tp; unsigned long s, e; struct wb_lambda f; HAVOC(g_k); parallel_for(&tp, s, e, f); REACHABLE(); }
