/* C07 (partial): the bounding-box pre-test of slabs and faults is a superset test.
 *  point_inside_implementation(p, tol): a point inside the closed core box [lo, hi] is never rejected, for every
 *     tolerance in [0, 1] (IEEE arithmetic, concrete: lo - tol*|hi-lo| <= lo for finite corners);
 *  point_inside(p, tol): Cartesian -> implementation(p); spherical -> implementation(p) || implementation(p -/+ 2 pi on
 *     the longitude, towards the other side of zero) - so a member is also found through its alias. */
#include "spec.h"
unsigned char g_ans1, g_ans2; int g_calls; double g_px, g_py;
#include "gen.c"
#define LO(k) (this_->boundary_points.first.point.e[k])
#define HI(k) (this_->boundary_points.second.point.e[k])
#ifdef UNIT_box_impl
_Bool BoundingBox2_point_inside_implementation__contract(struct BoundingBox2 *this_, struct Point2 *p, double tolerance)
__CPROVER_requires(FINITE(LO(0)) && FINITE(LO(1)) && FINITE(HI(0)) && FINITE(HI(1)) && FINITE(p->point.e[0]) && FINITE(p->point.e[1]))
__CPROVER_requires(tolerance >= 0.0 && tolerance <= 1.0)
__CPROVER_assigns()
__CPROVER_ensures((LO(0) <= p->point.e[0] && p->point.e[0] <= HI(0) && LO(1) <= p->point.e[1] && p->point.e[1] <= HI(1)) ==> __CPROVER_return_value)
;
void h_box_impl(void) { struct BoundingBox2 b; struct Point2 p; double t; BoundingBox2_point_inside_implementation(&b, &p, t); REACHABLE(); }
#endif
#ifdef UNIT_box_wrapper
#define LONSHIFT (g_px < 0.0 ? 2.0 * G_Consts_PI : -2.0 * G_Consts_PI)
_Bool BoundingBox2_point_inside_implementation__contract(struct BoundingBox2 *this_, struct Point2 *p, double tolerance)
__CPROVER_requires(g_calls < 2 && SAMEL(p->point.e[1], g_py))
__CPROVER_requires(g_calls == 0 ? SAMEL(p->point.e[0], g_px) : SAME(p->point.e[0], FPXA(g_px + LONSHIFT)))
__CPROVER_assigns(g_calls)
__CPROVER_ensures(g_calls == __CPROVER_old(g_calls) + 1)
__CPROVER_ensures(__CPROVER_return_value == (g_calls == 1 ? (g_ans1 != 0) : (g_ans2 != 0)))
;
_Bool BoundingBox2_point_inside__contract(struct BoundingBox2 *this_, struct Point2 *point, double tolerance)
__CPROVER_requires(g_calls == 0)
__CPROVER_requires(SAMEL(g_px, point->point.e[0]))
__CPROVER_requires(SAMEL(g_py, point->point.e[1]))
__CPROVER_assigns(g_calls)
__CPROVER_ensures(point->coordinate_system != E_CoordinateSystem_spherical ==> (g_calls == 1 && __CPROVER_return_value == (g_ans1 != 0)))
__CPROVER_ensures(point->coordinate_system == E_CoordinateSystem_spherical ==> (__CPROVER_return_value == (g_ans1 != 0 || g_ans2 != 0) && (g_ans1 != 0 || g_calls == 2)))
;
void h_box_wrapper(void) { struct BoundingBox2 b; struct Point2 p; double t; HAVOC(g_ans1); HAVOC(g_ans2); HAVOC(g_px); HAVOC(g_py);
  BoundingBox2_point_inside(&b, &p, t); REACHABLE(); }
#endif
