/* C15: "the seed (constructor argument or 'random number seed' entry)".  World::World seeds the engine with its
 * random_number_seed argument before the file is parsed: when parse_entries runs (which may reseed from the file, unit
 * world_parse_entries) the engine state is that of the constructor seed; every other constructor argument reaches
 * Parameters::initialize unchanged (file name, output flag and directory). */
unsigned long g_seeded_with; int g_seedings;
#define WB_SEEDED(s) do { g_seeded_with = (s); g_seedings++; } while (0)
#include "spec.h"
unsigned long g_seed, g_file, g_dir; _Bool g_has; int g_parsed;
#include "gen.c"
struct Parameters Parameters_ctor__contract(struct World *world)
__CPROVER_requires(1) __CPROVER_assigns(wb_thrown) __CPROVER_ensures(IS_BOOL(wb_thrown))
;
void World_declare_entries__contract(struct Parameters *prm)
__CPROVER_requires(1) __CPROVER_assigns(wb_thrown) __CPROVER_ensures(IS_BOOL(wb_thrown))
;
void Parameters_initialize__contract(struct Parameters *this_, struct wb_string *filename, _Bool has_output_dir, struct wb_string *output_dir)
__CPROVER_requires(filename->h == g_file && has_output_dir == g_has && output_dir->h == g_dir)
__CPROVER_assigns(wb_thrown) __CPROVER_ensures(IS_BOOL(wb_thrown))
;
void World_parse_entries__contract(struct World *this_, struct Parameters *prm)
/* at this point the engine has been seeded exactly once, with the constructor argument */
__CPROVER_requires(g_parsed == 0 && g_seedings == 1 && g_seeded_with == (unsigned int)(g_seed & 0xFFFFFFFFul))
__CPROVER_requires(this_->random_number_engine.state == __CPROVER_uninterpreted_mt19937_state_of_seed((unsigned int)(g_seed & 0xFFFFFFFFul)))
__CPROVER_requires(prm == &this_->parameters)
__CPROVER_assigns(wb_thrown, g_parsed) __CPROVER_ensures(IS_BOOL(wb_thrown) && g_parsed == 1)
;
struct World World_ctor__contract(struct wb_string filename, _Bool has_output_dir, struct wb_string *output_dir, unsigned long random_number_seed, _Bool limit_debug_consistency_checks_)
__CPROVER_requires(wb_thrown == 0 && g_seedings == 0 && g_parsed == 0)
__CPROVER_requires(filename.h == g_file && has_output_dir == g_has && output_dir->h == g_dir && random_number_seed == g_seed)
__CPROVER_assigns(wb_thrown, g_seeded_with, g_seedings, g_parsed)
__CPROVER_ensures(!wb_thrown ==> (g_parsed == 1 && g_seedings == 1))
__CPROVER_ensures(!wb_thrown ==> __CPROVER_return_value.random_number_engine.state == __CPROVER_uninterpreted_mt19937_state_of_seed((unsigned int)(g_seed & 0xFFFFFFFFul)))
__CPROVER_ensures(!wb_thrown ==> __CPROVER_return_value.limit_debug_consistency_checks == limit_debug_consistency_checks_)
;
void h_world_ctor(void) { struct wb_string f, d; _Bool h, l; unsigned long s; HAVOC(g_seed); HAVOC(g_file); HAVOC(g_dir); HAVOC(g_has); g_seedings = 0; g_parsed = 0;
  World_ctor(f, h, &d, s, l); REACHABLE(); }
