/* C19: geometric kernels agree with their definitions (one unit per kernel, -DUNIT_<name>)
 *   great circle : r * acos(clamp(p1.p2 / (r*r), -1, 1))   for ANY pair of points at the same radius
 *   conversions  : r = sqrt(x*x+y*y+z*z), lon = atan2(y,x), lat = pi/2 - acos(z/r)   (0 at the centre) and the inverse
 *   dot product  : sum of products, in index order
 */
#include "spec.h"
static const double wb_zero = 0.0;
double g_c1x, g_c1y, g_c1z, g_c2x, g_c2y, g_c2z;   /* Cartesian images answered by spherical_to_cartesian (great circle) */
int g_calls;
const void *g_p1, *g_p2;
double g_dot;
#include "gen.c"
#define DOT3(ax, ay, az, bx, by, bz) FPX(FPX(FPX(wb_zero + ax * bx) + ay * by) + az * bz)
#define MINF(a, b) ((b) < (a) ? (b) : (a))      /* std::min / std::max as the library defines them */
#define MAXF(a, b) ((a) < (b) ? (b) : (a))

#ifdef UNIT_point3_dot
double Point3_dot__contract(struct Point3 *this_, struct Point3 *point_right)
__CPROVER_assigns()
__CPROVER_ensures(SAMEV(__CPROVER_return_value, DOT3(this_->point.e[0], this_->point.e[1], this_->point.e[2], point_right->point.e[0], point_right->point.e[1], point_right->point.e[2])))
;
void h_point3_dot(void) { struct Point3 a, b; Point3_dot(&a, &b); REACHABLE(); }
#endif

#ifdef UNIT_great_circle
struct Point3 Utilities_spherical_to_cartesian_coordinates__contract(struct arr_double_3 *scoord)
__CPROVER_requires((g_calls == 0 && (const void *)scoord == g_p1) || (g_calls == 1 && (const void *)scoord == g_p2))
__CPROVER_assigns(g_calls)
__CPROVER_ensures(g_calls == __CPROVER_old(g_calls) + 1)
__CPROVER_ensures(g_calls == 1 ==> (SAMEL(__CPROVER_return_value.point.e[0], g_c1x) && SAMEL(__CPROVER_return_value.point.e[1], g_c1y) && SAMEL(__CPROVER_return_value.point.e[2], g_c1z)))
__CPROVER_ensures(g_calls == 2 ==> (SAMEL(__CPROVER_return_value.point.e[0], g_c2x) && SAMEL(__CPROVER_return_value.point.e[1], g_c2y) && SAMEL(__CPROVER_return_value.point.e[2], g_c2z)))
;
double Point3_dot__contract(struct Point3 *this_, struct Point3 *point_right)
__CPROVER_assigns()
__CPROVER_ensures(SAMEV(__CPROVER_return_value, DOT3(this_->point.e[0], this_->point.e[1], this_->point.e[2], point_right->point.e[0], point_right->point.e[1], point_right->point.e[2])))
;
#define RADIUS (point_1->point.e[0])
#define COSANGLE FPX(DOT3(g_c1x, g_c1y, g_c1z, g_c2x, g_c2y, g_c2z) / (RADIUS * RADIUS))
double great_circle__contract(struct CoordinateSystems_Spherical *this_, struct Point3 *point_1, struct Point3 *point_2)
__CPROVER_requires(g_calls == 0 && g_p1 == (const void *)&point_1->point && g_p2 == (const void *)&point_2->point && wb_thrown == 0)
__CPROVER_assigns(g_calls)
/* the great-circle distance for any pair, also more than 90 degrees apart: the cosine is clamped to [-1, 1] */
__CPROVER_ensures(SAME(__CPROVER_return_value, FPX(RADIUS * acos(MINF(1.0, MAXF(-1.0, COSANGLE))))))
;
void h_great_circle(void) { struct CoordinateSystems_Spherical s; struct Point3 a, b;
  HAVOC(g_c1x); HAVOC(g_c1y); HAVOC(g_c1z); HAVOC(g_c2x); HAVOC(g_c2y); HAVOC(g_c2z); HAVOC(g_p1); HAVOC(g_p2);
  great_circle(&s, &a, &b); REACHABLE(); }
#endif

#ifdef UNIT_cartesian_to_spherical
#define PX (position->point.e[0])
#define PY (position->point.e[1])
#define PZ (position->point.e[2])
#define RNORM FPX(sqrt(FPX(PX * PX + PY * PY + PZ * PZ)))
struct arr_double_3 Utilities_cartesian_to_spherical_coordinates__contract(struct Point3 *position)
__CPROVER_assigns()
__CPROVER_ensures(SAME(__CPROVER_return_value.e[0], RNORM))
__CPROVER_ensures(SAME(__CPROVER_return_value.e[1], FPX(atan2(PY, PX))))
__CPROVER_ensures(SAME(__CPROVER_return_value.e[2], (RNORM > DBL_MIN) ? FPX(0.5 * G_Consts_PI - acos(PZ / RNORM)) : 0.0))
;
void h_cartesian_to_spherical(void) { struct Point3 p; Utilities_cartesian_to_spherical_coordinates(&p); REACHABLE(); }
#endif

#ifdef UNIT_spherical_to_cartesian
#define SR (scoord->e[0])
#define SLON (scoord->e[1])
#define SLAT (scoord->e[2])
#define COSLAT FPX(SR * sin(0.5 * G_Consts_PI - SLAT))
struct Point3 Utilities_spherical_to_cartesian_coordinates__contract(struct arr_double_3 *scoord)
__CPROVER_assigns()
__CPROVER_ensures(SAME(__CPROVER_return_value.point.e[0], FPX(COSLAT * cos(SLON))))
__CPROVER_ensures(SAME(__CPROVER_return_value.point.e[1], FPX(COSLAT * sin(SLON))))
__CPROVER_ensures(SAME(__CPROVER_return_value.point.e[2], FPX(SR * cos(0.5 * G_Consts_PI - SLAT))))
__CPROVER_ensures(__CPROVER_return_value.coordinate_system == E_CoordinateSystem_cartesian)
;
void h_spherical_to_cartesian(void) { struct arr_double_3 s; Utilities_spherical_to_cartesian_coordinates(&s); REACHABLE(); }
#endif
