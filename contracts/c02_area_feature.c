/* C02 (+C04 extent guard, C01 block independence): properties() of the area features
 * (continental plate, oceanic plate, mantle layer; -DFAM=<family>).
 *
 *  covers  :=  min depth <= depth <= max depth  &&  polygon_contains_point(coordinates, surface position)
 *              &&  local min depth <= depth <= local max depth                     (closed intervals)
 *  !covers  => the answer is left exactly as it was (identity on an arbitrary slot, size unchanged)
 *   covers  => for the request entry k whose block contains the slot:
 *       temperature / composition : left fold of the feature's models of that kind, in list order, each called
 *                     with (position, natural position, depth, gravity | composition number, value painted so far,
 *                     local min depth, local max depth); an empty list leaves the value as it was
 *       grains      : the block is read into a grains object, folded through the grains models, written back
 *       tag         : the feature's tag index
 *       velocity    : fold of the velocity models starting from (0,0,0)
 *     and no slot outside block k is written while entry k is processed.
 */
#include "spec.h"
#define PASTE_(a, b) a##b
#define PASTE(a, b) PASTE_(a, b)
#define CAT3_(a, b, c) a##b##c
#define CAT3(a, b, c) CAT3_(a, b, c)
#define FT PASTE(Features_, FAM)
#define FFUNC PASTE(FT, _properties)
#define FCONTRACT PASTE(FT, _properties__contract)
#define TIFACE CAT3(Features_, FAM, Models_Temperature_Interface)
#define CIFACE CAT3(Features_, FAM, Models_Composition_Interface)
#define GIFACE CAT3(Features_, FAM, Models_Grains_Interface)
#define VIFACE CAT3(Features_, FAM, Models_Velocity_Interface)

const void *g_feature;                     /* the feature under contract */
unsigned char g_inside;                    /* answer of polygon_contains_point */
double g_minl, g_maxl;                     /* answers of the two depth surfaces */
double g_depth, g_gravity;
const struct vec_arr_uint_3 *g_reqp;
size_t g_blk;                              /* request entry whose block contains wb_g_slot */
unsigned char g_active;                    /* ghost: entry g_blk is being processed */
size_t g_next;                             /* number of models of the active kind applied so far */
double g_chain;                            /* scalar kinds: value painted so far */
double g_vchain0, g_vchain1, g_vchain2;    /* velocity painted so far */
size_t g_gi, g_gr, g_gc;                   /* grains: arbitrary grain index / matrix row / column followed through the fold */
double g_gsize, g_grot;                    /* size and matrix entry of that grain as painted so far */
double g_before;                           /* slot value before the call */
/* values captured by ghost code at the entry of an inner model loop (loop_entry of an indexed cell is not usable) */
double g_e_slot, g_e_chain, g_e_gsize, g_e_grot, g_e_v0, g_e_v1, g_e_v2; size_t g_e_next;
#define REQ(k) (g_reqp->data[k])
#define KIND (REQ(g_blk).e[0])
#define IN_BLK (wb_g_slot < g_total)
#define OFF (wb_g_slot - g_pre[g_blk])
#define NGR ((size_t)REQ(g_blk).e[2])
#define ENTRY_OK(k, n) ((size_t)(k) >= (size_t)(n) || (entry_in_output->data[k] == g_pre[k] && (REQ(k).e[0] != 3u || REQ(k).e[2] <= WB_CAP_vec_arr_arr_double_3_3)))
#define GR_SIZE(g) ((g).sizes.data[g_gi])
#define GR_ROT(g) ((g).rotation_matrices.data[g_gi].e[g_gr].e[g_gc])
#include "gen.c"

#define MINL (this_->min_depth_surface.constant_value ? this_->min_depth : g_minl)
#define MAXL (this_->max_depth_surface.constant_value ? this_->max_depth : g_maxl)
#define COVERS (depth <= this_->max_depth && depth >= this_->min_depth && g_inside && depth <= MAXL && depth >= MINL)
#define FEAT ((struct FT *)g_feature)
#define FMINL (FEAT->min_depth_surface.constant_value ? FEAT->min_depth : g_minl)
#define FMAXL (FEAT->max_depth_surface.constant_value ? FEAT->max_depth : g_maxl)

/* ---- geometry callees (C04 proves the polygon test; here only where it is asked) */
_Bool Utilities_polygon_contains_point__contract(struct vec_Point2 *point_list, struct Point2 *point)
__CPROVER_requires(point_list == &FEAT->base_.coordinates)
__CPROVER_assigns()
__CPROVER_ensures(__CPROVER_return_value == (g_inside != 0))
;
struct arr_double_2 Objects_NaturalCoordinate_get_surface_coordinates__contract(struct Objects_NaturalCoordinate *this_)
__CPROVER_requires(1) __CPROVER_assigns() __CPROVER_ensures(1)
;
struct Point2 Objects_NaturalCoordinate_get_surface_point__contract(struct Objects_NaturalCoordinate *this_)
__CPROVER_requires(1) __CPROVER_assigns() __CPROVER_ensures(1)
;
enum enum_CoordinateSystem CoordinateSystems_Interface_natural_coordinate_system__contract(struct CoordinateSystems_Interface *this_)
__CPROVER_requires(1) __CPROVER_assigns() __CPROVER_ensures(1)
;
struct Objects_SurfaceValueInfo Objects_Surface_local_value__contract(struct Objects_Surface *this_, struct Point2 *check_point)
__CPROVER_requires(this_ == &FEAT->min_depth_surface || this_ == &FEAT->max_depth_surface)
__CPROVER_assigns(wb_thrown)
__CPROVER_ensures(IS_BOOL(wb_thrown))
__CPROVER_ensures(this_ == &FEAT->min_depth_surface ==> SAMEL(__CPROVER_return_value.interpolated_value, g_minl))
__CPROVER_ensures(this_ == &FEAT->max_depth_surface ==> SAMEL(__CPROVER_return_value.interpolated_value, g_maxl))
;

/* ---- interface contracts of the models: while the entry of the observed block is processed (g_active) every
 *      model must be the next one of its list and must receive the value painted so far */
double PASTE(TIFACE, _get_temperature__contract)(struct TIFACE *this_, struct Point3 *position, struct Objects_NaturalCoordinate *nat,
    double depth, double gravity, double temperature, double feature_min_depth, double feature_max_depth)
__CPROVER_requires(!g_active || (g_next < FEAT->temperature_models.n && this_ == FEAT->temperature_models.data[g_next]))
__CPROVER_requires(!g_active || SAMEL(temperature, g_chain))
__CPROVER_requires(!g_active || SAMEL(depth, g_depth))
__CPROVER_requires(!g_active || SAMEL(gravity, g_gravity))
__CPROVER_requires(!g_active || SAME(feature_min_depth, FMINL))
__CPROVER_requires(!g_active || SAME(feature_max_depth, FMAXL))
__CPROVER_assigns(wb_thrown)
__CPROVER_assigns(g_active != 0: g_next, g_chain)
__CPROVER_ensures(IS_BOOL(wb_thrown))
__CPROVER_ensures(g_active ==> (g_next == __CPROVER_old(g_next) + 1 && SAMEL(__CPROVER_return_value, g_chain)))
;
double PASTE(CIFACE, _get_composition__contract)(struct CIFACE *this_, struct Point3 *position, struct Objects_NaturalCoordinate *nat,
    double depth, unsigned int composition_number, double composition, double feature_min_depth, double feature_max_depth)
__CPROVER_requires(!g_active || (g_next < FEAT->composition_models.n && this_ == FEAT->composition_models.data[g_next]))
__CPROVER_requires(!g_active || composition_number == REQ(g_blk).e[1])
__CPROVER_requires(!g_active || SAMEL(composition, g_chain))
__CPROVER_requires(!g_active || SAMEL(depth, g_depth))
__CPROVER_requires(!g_active || SAME(feature_min_depth, FMINL))
__CPROVER_requires(!g_active || SAME(feature_max_depth, FMAXL))
__CPROVER_assigns(wb_thrown)
__CPROVER_assigns(g_active != 0: g_next, g_chain)
__CPROVER_ensures(IS_BOOL(wb_thrown))
__CPROVER_ensures(g_active ==> (g_next == __CPROVER_old(g_next) + 1 && SAMEL(__CPROVER_return_value, g_chain)))
;
struct arr_double_3 PASTE(VIFACE, _get_velocity__contract)(struct VIFACE *this_, struct Point3 *position, struct Objects_NaturalCoordinate *nat,
    double depth, double gravity, struct arr_double_3 velocity, double feature_min_depth, double feature_max_depth)
__CPROVER_requires(!g_active || (g_next < FEAT->velocity_models.n && this_ == FEAT->velocity_models.data[g_next]))
__CPROVER_requires(!g_active || (SAMEL(velocity.e[0], g_vchain0) && SAMEL(velocity.e[1], g_vchain1) && SAMEL(velocity.e[2], g_vchain2)))
__CPROVER_requires(!g_active || SAMEL(depth, g_depth))
__CPROVER_requires(!g_active || SAMEL(gravity, g_gravity))
__CPROVER_requires(!g_active || SAME(feature_min_depth, FMINL))
__CPROVER_requires(!g_active || SAME(feature_max_depth, FMAXL))
__CPROVER_assigns(wb_thrown)
__CPROVER_assigns(g_active != 0: g_next, g_vchain0, g_vchain1, g_vchain2)
__CPROVER_ensures(IS_BOOL(wb_thrown))
__CPROVER_ensures(g_active ==> (g_next == __CPROVER_old(g_next) + 1 && SAMEL(__CPROVER_return_value.e[0], g_vchain0)
                  && SAMEL(__CPROVER_return_value.e[1], g_vchain1) && SAMEL(__CPROVER_return_value.e[2], g_vchain2)))
;
struct grains PASTE(GIFACE, _get_grains__contract)(struct GIFACE *this_, struct Point3 *position, struct Objects_NaturalCoordinate *nat,
    double depth, unsigned int composition_number, struct grains grains, double feature_min_depth, double feature_max_depth)
__CPROVER_requires(!g_active || (g_next < FEAT->grains_models.n && this_ == FEAT->grains_models.data[g_next]))
__CPROVER_requires(!g_active || composition_number == REQ(g_blk).e[1])
__CPROVER_requires(!g_active || (grains.sizes.n == NGR && grains.rotation_matrices.n == NGR))
__CPROVER_requires(!g_active || (SAMEL(GR_SIZE(grains), g_gsize) && SAMEL(GR_ROT(grains), g_grot)))
__CPROVER_requires(!g_active || SAMEL(depth, g_depth))
__CPROVER_requires(!g_active || SAME(feature_min_depth, FMINL))
__CPROVER_requires(!g_active || SAME(feature_max_depth, FMAXL))
__CPROVER_assigns(wb_thrown)
__CPROVER_assigns(g_active != 0: g_next, g_gsize, g_grot)
__CPROVER_ensures(IS_BOOL(wb_thrown))
__CPROVER_ensures(g_active ==> (g_next == __CPROVER_old(g_next) + 1 && __CPROVER_return_value.sizes.n == NGR && __CPROVER_return_value.rotation_matrices.n == NGR
                  && SAMEL(GR_SIZE(__CPROVER_return_value), g_gsize) && SAMEL(GR_ROT(__CPROVER_return_value), g_grot)))
__CPROVER_ensures(!g_active ==> (__CPROVER_return_value.sizes.n == grains.sizes.n && __CPROVER_return_value.rotation_matrices.n == grains.sizes.n))
;
/* grains(vector, n, start) reads sizes vector[start .. start+n) and matrices vector[start+n+9i+3r+c]; unroll_into writes
 * them back in the same layout and touches nothing else (both enforced on the real grains.cc in units grains_ctor / grains_unroll) */
struct grains grains_ctor__contract(struct vec_double *vector, unsigned long number_of_grains, unsigned long start_entry)
__CPROVER_requires(number_of_grains <= WB_CAP_vec_arr_arr_double_3_3 && vector->n <= WB_CAP_vec_double && start_entry <= vector->n && 10 * number_of_grains <= vector->n - start_entry)
__CPROVER_assigns()
__CPROVER_ensures(__CPROVER_return_value.sizes.n == number_of_grains && __CPROVER_return_value.rotation_matrices.n == number_of_grains)
__CPROVER_ensures((g_gi < number_of_grains && g_gr < 3 && g_gc < 3) ==> (SAMEL(GR_SIZE(__CPROVER_return_value), vector->data[start_entry + g_gi])
                  && SAMEL(GR_ROT(__CPROVER_return_value), vector->data[start_entry + number_of_grains + 9 * g_gi + 3 * g_gr + g_gc])))
;
void grains_unroll_into__contract(struct grains *this_, struct vec_double *vector, unsigned long start_entry)
__CPROVER_requires(this_->sizes.n == this_->rotation_matrices.n && this_->sizes.n <= WB_CAP_vec_arr_arr_double_3_3)
__CPROVER_requires(vector->n <= WB_CAP_vec_double && start_entry <= vector->n && 10 * this_->sizes.n <= vector->n - start_entry)
__CPROVER_requires(wb_g_slot < vector->n ==> SAMEL(g_e_slot, vector->data[wb_g_slot]))   /* caller's ghost names the slot value before the call */
__CPROVER_assigns(__CPROVER_object_whole(vector))
__CPROVER_ensures(vector->n == __CPROVER_old(vector->n))
__CPROVER_ensures((wb_g_slot < vector->n && (wb_g_slot < start_entry || wb_g_slot >= start_entry + 10 * this_->sizes.n)) ==>
                  SAMEL(vector->data[wb_g_slot], g_e_slot))
__CPROVER_ensures((g_gi < this_->sizes.n && g_gr < 3 && g_gc < 3) ==> (SAMEL(vector->data[start_entry + g_gi], GR_SIZE(*this_))
                  && SAMEL(vector->data[start_entry + this_->sizes.n + 9 * g_gi + 3 * g_gr + g_gc], GR_ROT(*this_))))
;

/* ---- the feature */
void FCONTRACT(struct FT *this_, struct Point3 *position, struct Objects_NaturalCoordinate *nat, double depth,
    struct vec_arr_uint_3 *properties, double gravity_norm, struct vec_ulong *entry_in_output, struct vec_double *output)
__CPROVER_requires(g_feature == this_ && g_reqp == properties && wb_thrown == 0 && g_active == 0 && g_next == 0)
__CPROVER_requires(SAMEL(g_depth, depth))
__CPROVER_requires(SAMEL(g_gravity, gravity_norm))
__CPROVER_requires(IS_BOOL(this_->min_depth_surface.constant_value) && IS_BOOL(this_->max_depth_surface.constant_value))
__CPROVER_requires(properties->n <= MAXP && entry_in_output->n == properties->n && output->n == g_total && g_total <= WB_CAP_vec_double)
__CPROVER_requires(LAYOUT_PRE(properties->data, properties->n))
__CPROVER_requires(FORALL_K(ENTRY_OK, properties->n))
__CPROVER_requires(this_->temperature_models.n <= WB_VEC_CAP && this_->composition_models.n <= WB_VEC_CAP && this_->grains_models.n <= WB_VEC_CAP && this_->velocity_models.n <= WB_VEC_CAP)
__CPROVER_requires(IN_BLK ==> (g_blk < properties->n && g_pre[g_blk] <= wb_g_slot && wb_g_slot < g_pre[g_blk + 1]))
__CPROVER_requires(IN_BLK ==> SAMEL(g_before, output->data[wb_g_slot]))
__CPROVER_requires((IN_BLK && KIND == 3u) ==> (NGR <= WB_CAP_vec_arr_arr_double_3_3 && g_gr < 3 && g_gc < 3 &&
                   (OFF < NGR ? g_gi == OFF : (g_gi == (OFF - NGR) / 9 && 3 * g_gr + g_gc == (OFF - NGR) % 9))))
__CPROVER_assigns(wb_thrown, g_active, g_next, g_chain, g_vchain0, g_vchain1, g_vchain2, g_gsize, g_grot, __CPROVER_object_whole(output),
                  g_e_slot, g_e_chain, g_e_gsize, g_e_grot, g_e_v0, g_e_v1, g_e_v2, g_e_next)
__CPROVER_ensures(wb_thrown || output->n == g_total)
/* a feature that does not contain the point has no influence */
__CPROVER_ensures((!wb_thrown && IN_BLK && !COVERS) ==> SAMEL(output->data[wb_g_slot], g_before))
/* temperature and composition: in-order fold of all models of the kind over the incoming value */
__CPROVER_ensures((!wb_thrown && IN_BLK && COVERS && KIND == 1u) ==> (g_next == this_->temperature_models.n
                  && (g_next == 0 ? SAMEL(output->data[wb_g_slot], g_before) : SAMEL(output->data[wb_g_slot], g_chain))))
__CPROVER_ensures((!wb_thrown && IN_BLK && COVERS && KIND == 2u) ==> (g_next == this_->composition_models.n
                  && (g_next == 0 ? SAMEL(output->data[wb_g_slot], g_before) : SAMEL(output->data[wb_g_slot], g_chain))))
/* tag: this feature's index */
__CPROVER_ensures((!wb_thrown && IN_BLK && COVERS && KIND == 4u) ==> output->data[wb_g_slot] == (double)this_->base_.tag_index)
/* velocity: fold from zero */
__CPROVER_ensures((!wb_thrown && IN_BLK && COVERS && KIND == 5u) ==> (g_next == this_->velocity_models.n
                  && (g_next == 0 ? output->data[wb_g_slot] == 0.0
                      : (OFF == 0 ? SAMEL(output->data[wb_g_slot], g_vchain0) : OFF == 1 ? SAMEL(output->data[wb_g_slot], g_vchain1) : SAMEL(output->data[wb_g_slot], g_vchain2)))))
/* grains: read, fold, write back */
__CPROVER_ensures((!wb_thrown && IN_BLK && COVERS && KIND == 3u) ==> (g_next == this_->grains_models.n
                  && (g_next == 0 ? SAMEL(output->data[wb_g_slot], g_before)
                      : (OFF < NGR ? SAMEL(output->data[wb_g_slot], g_gsize) : SAMEL(output->data[wb_g_slot], g_grot)))))
;

void h_feature(void)
{
  struct World w; struct CoordinateSystems_Interface cs; struct FT f; struct Point3 p; struct Objects_NaturalCoordinate nat;
  double depth, gravity; struct vec_arr_uint_3 req; struct vec_ulong entry; struct vec_double out;
  f.base_.world = &w; w.parameters.coordinate_system = &cs;
  spec_havoc_layout();
  HAVOC(g_feature); HAVOC(g_inside); HAVOC(g_minl); HAVOC(g_maxl); HAVOC(g_depth); HAVOC(g_gravity); HAVOC(g_reqp); HAVOC(g_blk);
  HAVOC(g_chain); HAVOC(g_vchain0); HAVOC(g_vchain1); HAVOC(g_vchain2); HAVOC(g_gi); HAVOC(g_gr); HAVOC(g_gc); HAVOC(g_gsize); HAVOC(g_grot); HAVOC(g_before);
  FFUNC(&f, &p, &nat, depth, &req, gravity, &entry, &out);
  REACHABLE();
}
