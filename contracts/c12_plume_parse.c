/* C12 (partial): "files whose list-valued parameters have inconsistent lengths are rejected".
 *  Plume::parse_entries: Parameters::get_vector<double>(key) answers, for each of the four per-cross-section lists,
 *  ANY list the schema admits (any length within the model bound, any values); get_coordinates stores any coordinate
 *  list.  Afterwards either an exception is pending or the representation invariant Plume::properties indexes by
 *  holds: one depth, semi-major axis, eccentricity and rotation angle per coordinate.  Parsing terminates (decreases
 *  clauses) for every list length, the empty list included. */
#include "spec.h"
double g_mind, g_maxd;
#include "gen.c"
#define CAPD WB_CAP_vec_double
/* callees about which nothing is assumed but "may raise an exception, writes nothing else": given as bodies (cheaper under DFCC than a replaced contract) */
#define MAY_THROW() do { _Bool t_; if (t_) wb_thrown = 1; } while (0)
enum enum_CoordinateSystem CoordinateSystems_Interface_natural_coordinate_system__contract(struct CoordinateSystems_Interface *this_)
__CPROVER_requires(1) __CPROVER_assigns(wb_thrown) __CPROVER_ensures(IS_BOOL(wb_thrown))
;
struct wb_string Parameters_get__string__ret_basic_string_char__contract(struct Parameters *this_, struct wb_string *name)
__CPROVER_requires(name->h == WB_STR("name").h || name->h == WB_STR("tag").h)
__CPROVER_assigns(wb_thrown) __CPROVER_ensures(IS_BOOL(wb_thrown))
;
unsigned long Features_FeatureUtilities_add_vector_unique__contract(struct vec_wb_string *vector, struct wb_string *add_string)
__CPROVER_requires(1) __CPROVER_assigns(wb_thrown, *vector) __CPROVER_ensures(IS_BOOL(wb_thrown) && vector->n <= WB_CAP_vec_wb_string)
;
void Features_Interface_get_coordinates__contract(struct Features_Interface *this_, struct wb_string *name, struct Parameters *prm, enum enum_CoordinateSystem coordinate_system)
__CPROVER_requires(name->h == WB_STR("coordinates").h)
__CPROVER_assigns(wb_thrown, this_->coordinates, this_->interpolation_type, this_->original_number_of_coordinates, this_->bezier_curve)
__CPROVER_ensures(IS_BOOL(wb_thrown) && this_->coordinates.n <= WB_CAP_vec_Point2)
;
double Parameters_get__string__ret_double__contract(struct Parameters *this_, struct wb_string *name)
__CPROVER_requires(name->h == WB_STR("min depth").h || name->h == WB_STR("max depth").h)
__CPROVER_assigns(wb_thrown)
__CPROVER_ensures(IS_BOOL(wb_thrown) && (name->h == WB_STR("min depth").h ? SAMEL(__CPROVER_return_value, g_mind) : SAMEL(__CPROVER_return_value, g_maxd)))
;
/* any list (length and values) for each of the four keys */
struct vec_double Parameters_get_vector__string__ret_double__contract(struct Parameters *this_, struct wb_string *name)
__CPROVER_requires(name->h == WB_STR("cross section depths").h || name->h == WB_STR("semi-major axis").h || name->h == WB_STR("eccentricity").h || name->h == WB_STR("rotation angles").h)
__CPROVER_assigns(wb_thrown)
__CPROVER_ensures(IS_BOOL(wb_thrown) && __CPROVER_return_value.n <= CAPD)
;
#define MODELS(K) \
_Bool Parameters_get_unique_pointers__ret_Features_PlumeModels_##K##_Interface__contract(struct Parameters *this_, struct wb_string *name, struct vec_Features_PlumeModels_##K##_Interface_p *vector) \
__CPROVER_requires(1) __CPROVER_assigns(wb_thrown, *vector) \
__CPROVER_ensures(IS_BOOL(wb_thrown) && vector->n <= WB_CAP_vec_Features_PlumeModels_##K##_Interface_p) \
; \
void Features_PlumeModels_##K##_Interface_parse_entries(struct Features_PlumeModels_##K##_Interface *this_, struct Parameters *prm) { MAY_THROW(); }
MODELS(Temperature) MODELS(Composition) MODELS(Grains) MODELS(Velocity)
void Parameters_enter_subsection(struct Parameters *this_, struct wb_string *name) { MAY_THROW(); }
void Parameters_leave_subsection(struct Parameters *this_) { MAY_THROW(); }
#define NC (this_->base_.coordinates.n)
void Features_Plume_parse_entries__contract(struct Features_Plume *this_, struct Parameters *prm)
__CPROVER_requires(wb_thrown == 0)
__CPROVER_assigns(wb_thrown, this_->base_.name, this_->base_.tag_index, this_->base_.coordinates, this_->base_.interpolation_type,
                  this_->base_.original_number_of_coordinates, this_->base_.bezier_curve, this_->min_depth, this_->max_depth,
                  this_->depths, this_->semi_major_axis_lengths, this_->eccentricities, this_->rotation_angles,
                  this_->temperature_models, this_->composition_models, this_->grains_models, this_->velocity_models,
                  this_->base_.world->feature_tags)
/* one entry per coordinate in every per-cross-section list, or the file is refused */
__CPROVER_ensures(!wb_thrown ==> this_->depths.n == NC)
__CPROVER_ensures(!wb_thrown ==> this_->semi_major_axis_lengths.n == NC)
__CPROVER_ensures(!wb_thrown ==> this_->eccentricities.n == NC)
__CPROVER_ensures(!wb_thrown ==> this_->rotation_angles.n == NC)
__CPROVER_ensures(!wb_thrown ==> (SAMEL(this_->min_depth, g_mind) && SAMEL(this_->max_depth, g_maxd)))
;
void h_plume_parse(void)
{
  struct World w; struct CoordinateSystems_Interface cs; struct Features_Plume f; struct Parameters prm;
  f.base_.world = &w; w.parameters.coordinate_system = &cs; prm.coordinate_system = &cs;
  HAVOC(g_mind); HAVOC(g_maxd);
  Features_Plume_parse_entries(&f, &prm);
  REACHABLE();
}
