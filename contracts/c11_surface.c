/* C11: depth surfaces given at points.
 *  approx(a, b): the merge of listed points with polygon corners (Parameters::get for depth surfaces) recognises a
 *  listed point as a corner through approx on both coordinates, so approx must hold for equal finite numbers -
 *  including zero, the most common corner coordinate. */
#include "spec.h"
#include "gen.c"
#ifdef UNIT_approx
_Bool Utilities_approx__contract(double a, double b, double error_factor)
__CPROVER_requires(error_factor >= 1.0 && error_factor <= 1e6)
#ifdef KF_C11_APPROX_ZERO
/* known finding C11-approx-zero: equal numbers at or next to zero (tolerance |min(a,b)|*eps*factor is zero or underflows) */
__CPROVER_requires(!(a == b && __CPROVER_fabs(a) < 1e-290))
#endif
__CPROVER_assigns()
/* a listed point that coincides with a corner is recognised as that corner */
__CPROVER_ensures((a == b && FINITE(a)) ==> __CPROVER_return_value)
/* and numbers that differ by more than the relative tolerance are not */
__CPROVER_ensures((FINITE(a) && FINITE(b) && (a > 0.0 && b > 2.0 * a)) ==> !__CPROVER_return_value)
;
void h_approx(void) { double a, b, f; Utilities_approx(a, b, f); REACHABLE(); }
#endif
