/* C01: World::properties_output_size announces exactly the sum of the block widths */
#include "spec.h"
size_t g_prefix;              /* ghost: sum of WIDTH over the entries processed so far */
#include "gen.c"

unsigned int World_properties_output_size__contract(struct World *this_, struct vec_arr_uint_3 *properties)
__CPROVER_requires(properties->n <= MAXP)      /* typed objects are built by the harness */
__CPROVER_requires(wb_thrown == 0 && g_prefix == 0)
__CPROVER_assigns(wb_thrown, g_prefix)        /* frame: the world and the request are not written */
__CPROVER_ensures(wb_thrown || __CPROVER_return_value == (g_prefix & 0xFFFFFFFFul))
__CPROVER_ensures((!wb_thrown && g_prefix <= UINT_MAX) ==> __CPROVER_return_value == g_prefix)
;

void h_World_properties_output_size(void)
{
  struct World w; struct vec_arr_uint_3 pv;
  World_properties_output_size(&w, &pv);
  REACHABLE();
}
