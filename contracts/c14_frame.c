/* C14 (bounded stand-in): frame of the slab / fault query functions - a const query may write the answer vector only.
 * Fault::properties and SubductingPlate::properties are too large for DFCC with loop contracts in this sandbox
 * (DESIGN 15); here every loop is cut after its first iteration and only the frame obligations ("... is assignable")
 * are considered.  Labelled BOUNDED in the evidence and never counted as proved. */
#include "spec.h"
#include "gen.c"
#ifdef UNIT_fault_frame
#define FT Features_Fault
#define FFUNC Features_Fault_properties
#else
#define FT Features_SubductingPlate
#define FFUNC Features_SubductingPlate_properties
#endif
#define PASTE_(a, b) a##b
#define PASTE(a, b) PASTE_(a, b)
/* callees: nothing but "any value, no write" is assumed about them here */
double Objects_NaturalCoordinate_get_depth_coordinate__contract(struct Objects_NaturalCoordinate *this_)
__CPROVER_requires(1) __CPROVER_assigns() __CPROVER_ensures(1)
;
struct arr_double_2 Objects_NaturalCoordinate_get_surface_coordinates__contract(struct Objects_NaturalCoordinate *this_)
__CPROVER_requires(1) __CPROVER_assigns() __CPROVER_ensures(1)
;
enum enum_CoordinateSystem CoordinateSystems_Interface_natural_coordinate_system__contract(struct CoordinateSystems_Interface *this_)
__CPROVER_requires(1) __CPROVER_assigns() __CPROVER_ensures(1)
;
_Bool BoundingBox2_point_inside__contract(struct BoundingBox2 *this_, struct Point2 *point, double tolerance)
__CPROVER_requires(1) __CPROVER_assigns() __CPROVER_ensures(1)
;
struct Utilities_PointDistanceFromCurvedPlanes Utilities_distance_point_from_curved_planes__contract(struct Point3 *check_point,
    struct Objects_NaturalCoordinate *check_point_natural, struct Point2 *reference_point, struct vec_Point2 *point_list,
    struct vec_vec_double *plane_segment_lengths, struct vec_vec_Point2 *plane_segment_angles, double start_radius,
    struct CoordinateSystems_Interface * *coordinate_system, _Bool only_positive, struct Objects_BezierCurve *bezier_curve)
__CPROVER_requires(1) __CPROVER_assigns() __CPROVER_ensures(1)
;
void PASTE(FFUNC, __contract)(struct FT *this_, struct Point3 *position, struct Objects_NaturalCoordinate *nat, double depth,
    struct vec_arr_uint_3 *properties, double gravity_norm, struct vec_ulong *entry_in_output, struct vec_double *output)
__CPROVER_requires(wb_thrown == 0)
__CPROVER_assigns(wb_thrown, __CPROVER_object_whole(output))      /* the feature, the world and every global are read-only */
__CPROVER_ensures(1)
;
void h_frame(void)
{
  struct World w; struct CoordinateSystems_Interface cs; struct FT f; struct Point3 p; struct Objects_NaturalCoordinate nat;
  double depth, gravity; struct vec_arr_uint_3 req; struct vec_ulong entry; struct vec_double out;
  f.base_.world = &w; w.parameters.coordinate_system = &cs;
  FFUNC(&f, &p, &nat, depth, &req, gravity, &entry, &out);
  REACHABLE();
}
