/* C14: frame of the query path - a const query function may write its answer (and the exception flag) only; the feature
 * object, the world, every global and every function-local static are read-only, so concurrent queries cannot race.
 * Frame-only units (pipeline key frame_only): the functions are too large for full DFCC contracts in this sandbox
 * (DESIGN 15), so nothing but the assigns clause is decided here: loops run under the trivial invariant (everything a
 * loop may write is havocked, then one arbitrary iteration is checked), untranslated callees are arbitrary-result
 * bodies that write nothing but the exception flag (assumed callee frames, listed in the evidence), and the harness
 * leaves every input unconstrained.  An over-approximation of the executions: unbounded and sound for the frame. */
#include "spec.h"
#include "gen.c"
#define PASTE_(a, b) a##b
#define PASTE(a, b) PASTE_(a, b)
#if defined(UNIT_fault_frame) || defined(UNIT_slab_frame)
#ifdef UNIT_fault_frame
#define FT Features_Fault
#define FFUNC Features_Fault_properties
#else
#define FT Features_SubductingPlate
#define FFUNC Features_SubductingPlate_properties
#endif
void PASTE(FFUNC, __contract)(struct FT *this_, struct Point3 *position, struct Objects_NaturalCoordinate *nat, double depth,
    struct vec_arr_uint_3 *properties, double gravity_norm, struct vec_ulong *entry_in_output, struct vec_double *output)
__CPROVER_requires(wb_thrown == 0)
/* type invariants of the inputs: every vector within its capacity (generated wf_* predicates) */
__CPROVER_requires(PASTE(wf_, FT)(this_) && wf_vec_arr_uint_3(properties) && wf_vec_ulong(entry_in_output) && wf_vec_double(output))
__CPROVER_assigns(wb_thrown, __CPROVER_object_whole(output))      /* the feature, the world and every global are read-only */
__CPROVER_ensures(1)
;
void h_frame(void)
{
  struct World w; struct CoordinateSystems_Interface cs; struct FT f; struct Point3 p; struct Objects_NaturalCoordinate nat;
  double depth, gravity; struct vec_arr_uint_3 req; struct vec_ulong entry; struct vec_double out;
  f.base_.world = &w; w.parameters.coordinate_system = &cs;
  FFUNC(&f, &p, &nat, depth, &req, gravity, &entry, &out);
  REACHABLE();
}
#endif
