/* C05 (uniform grains) / C15 (fixed grain sizes are returned as given; "normalised" = 1/number of grains each):
 * uniform grains model of the area features (-DFAM=<family>).
 *   outside the model's own depth range, or requested composition not listed -> the grains are returned as they came
 *   listed at first index j -> every grain gets the configured rotation matrix j and the size grain_sizes[j], or
 *                              1/(number of grains) when grain_sizes[j] is negative; the number of grains is unchanged
 */
#include "spec.h"
#define PASTE_(a, b) a##b
#define PASTE(a, b) PASTE_(a, b)
#define CAT3_(a, b, c) a##b##c
#define CAT3(a, b, c) CAT3_(a, b, c)
#define MTYPE CAT3(Features_, FAM, Models_Grains_Uniform)
#define MFUNC PASTE(MTYPE, _get_grains)
#define MCONTRACT PASTE(MTYPE, _get_grains__contract)
const void *g_model;
double g_minl, g_maxl;
unsigned char g_listed; size_t g_first; unsigned int g_number;
size_t g_gi, g_gr, g_gc;              /* an arbitrary grain and matrix entry */
#define MODEL ((struct MTYPE *)g_model)
#define NOT_EARLIER(k, dummy) ((size_t)(k) >= g_first || (size_t)(k) >= MODEL->compositions.n || MODEL->compositions.data[k] != g_number)
#define NOT_LISTED(k, dummy) ((size_t)(k) >= MODEL->compositions.n || MODEL->compositions.data[k] != g_number)
#include "gen.c"
#if !defined(VARIANT_PLUME) && !defined(VARIANT_DIST)
struct Point2 Objects_NaturalCoordinate_get_surface_point__contract(struct Objects_NaturalCoordinate *this_)
__CPROVER_requires(1) __CPROVER_assigns() __CPROVER_ensures(1)
;
struct Objects_SurfaceValueInfo Objects_Surface_local_value__contract(struct Objects_Surface *this_, struct Point2 *check_point)
__CPROVER_requires(this_ == &MODEL->min_depth_surface || this_ == &MODEL->max_depth_surface)
__CPROVER_assigns(wb_thrown)
__CPROVER_ensures(IS_BOOL(wb_thrown))
__CPROVER_ensures(this_ == &MODEL->min_depth_surface ==> SAMEL(__CPROVER_return_value.interpolated_value, g_minl))
__CPROVER_ensures(this_ == &MODEL->max_depth_surface ==> SAMEL(__CPROVER_return_value.interpolated_value, g_maxl))
;
#define MINL (this_->min_depth_surface.constant_value ? this_->min_depth : g_minl)
#define MAXL (this_->max_depth_surface.constant_value ? this_->max_depth : g_maxl)
#define INRANGE (depth <= this_->max_depth && depth >= this_->min_depth && depth <= MAXL && depth >= MINL)
#define SURF_OK (IS_BOOL(this_->min_depth_surface.constant_value) && IS_BOOL(this_->max_depth_surface.constant_value))
#define MPARAMS struct MTYPE *this_, struct Point3 *position, struct Objects_NaturalCoordinate *nat, double depth, unsigned int composition_number, struct grains grains, double feature_min_depth, double feature_max_depth
#elif defined(VARIANT_PLUME)
/* plume models have no depth surfaces: the range is [min depth, max depth] */
#define INRANGE (depth <= this_->max_depth && depth >= this_->min_depth)
#define SURF_OK 1
#define MPARAMS struct MTYPE *this_, struct Point3 *position, struct Objects_NaturalCoordinate *nat, double depth, unsigned int composition_number, struct grains grains, double feature_min_depth, double feature_max_depth
#else
/* slab / fault models: the range is in the distance from the plane (fault: |distance| from the centre plane) */
#ifdef IS_FAULT
#define DIST __CPROVER_fabs(dist->distance_from_plane)
#else
#define DIST (dist->distance_from_plane)
#endif
#define INRANGE (DIST <= this_->max_depth && DIST >= this_->min_depth)
#define SURF_OK 1
#define MPARAMS struct MTYPE *this_, struct Point3 *position, double depth, unsigned int composition_number, struct grains grains, double feature_min_depth, double feature_max_depth, struct Utilities_PointDistanceFromCurvedPlanes *dist, struct Features_FeatureUtilities_AdditionalParameters *ap
#endif
#define RET __CPROVER_return_value
#define NG (grains.sizes.n)
#define NGD ((double)NG)
#define INDEX_OK (g_gi < NG && g_gr < 3 && g_gc < 3)
struct grains MCONTRACT(MPARAMS)
__CPROVER_requires(g_model == this_ && g_number == composition_number && wb_thrown == 0)
__CPROVER_requires(SURF_OK)
/* representation invariant established by parse_entries (WBAssertThrow): one matrix and one size per listed composition */
__CPROVER_requires(this_->compositions.n <= MAXP && this_->rotation_matrices.n == this_->compositions.n && this_->grain_sizes.n == this_->compositions.n)
__CPROVER_requires(grains.sizes.n <= WB_CAP_vec_double && grains.rotation_matrices.n == grains.sizes.n && grains.sizes.n <= WB_CAP_vec_arr_arr_double_3_3)
__CPROVER_requires(g_listed ? (g_first < this_->compositions.n && this_->compositions.data[g_first] == composition_number && FORALL_K(NOT_EARLIER, 0))
                            : FORALL_K(NOT_LISTED, 0))
__CPROVER_assigns(wb_thrown)
__CPROVER_ensures(!wb_thrown ==> (RET.sizes.n == NG && RET.rotation_matrices.n == NG))
__CPROVER_ensures((!wb_thrown && !(INRANGE && g_listed) && INDEX_OK) ==> (SAMEL(RET.sizes.data[g_gi], grains.sizes.data[g_gi])
                  && SAMEL(RET.rotation_matrices.data[g_gi].e[g_gr].e[g_gc], grains.rotation_matrices.data[g_gi].e[g_gr].e[g_gc])))
__CPROVER_ensures((!wb_thrown && INRANGE && g_listed && INDEX_OK) ==> SAMEL(RET.rotation_matrices.data[g_gi].e[g_gr].e[g_gc], this_->rotation_matrices.data[g_first].e[g_gr].e[g_gc]))
__CPROVER_ensures((!wb_thrown && INRANGE && g_listed && INDEX_OK && !(this_->grain_sizes.data[g_first] < 0.0)) ==> SAMEL(RET.sizes.data[g_gi], this_->grain_sizes.data[g_first]))
__CPROVER_ensures((!wb_thrown && INRANGE && g_listed && INDEX_OK && this_->grain_sizes.data[g_first] < 0.0) ==> SAME(RET.sizes.data[g_gi], FPXA(1.0 / NGD)))
;
void h_grains_uniform(void)
{
  struct MTYPE m; struct Point3 p; double depth, fmin, fmax; unsigned int number; struct grains g;
#if !defined(VARIANT_DIST)
  struct Objects_NaturalCoordinate nat;
#endif
  HAVOC(g_model); HAVOC(g_minl); HAVOC(g_maxl); HAVOC(g_listed); HAVOC(g_first); HAVOC(g_number); HAVOC(g_gi); HAVOC(g_gr); HAVOC(g_gc);
#if defined(VARIANT_DIST)
  struct Utilities_PointDistanceFromCurvedPlanes d; struct Features_FeatureUtilities_AdditionalParameters ap;
  MFUNC(&m, &p, depth, number, g, fmin, fmax, &d, &ap);
#else
  MFUNC(&m, &p, &nat, depth, number, g, fmin, fmax);
#endif
  REACHABLE();
}
