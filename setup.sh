#!/bin/sh
# Offline setup: checks the tools the machinery needs, byte-compiles the Python, self-tests the translator on /repo.
set -e
cd "$(dirname "$0")"
for t in cbmc goto-cc goto-instrument clang++ c++filt python3 cmake ninja g++; do command -v $t >/dev/null || { echo "missing tool: $t"; exit 1; }; done
cbmc --version | grep -q '^6\.' || { echo "unexpected cbmc version"; exit 1; }
python3 -m py_compile lib/cxx2c.py lib/pipeline.py lib/fpx.py lib/native.py lib/oracle.py check
chmod +x check
mkdir -p evidence replays
# translator self-test: the smallest function under contract must extract and compile with goto-cc
python3 lib/cxx2c.py source/world_builder/world.cc WorldBuilder::World::properties_output_size > /var/tmp/gwbv-selftest.c
echo '_Bool wb_thrown; size_t wb_g_slot;' >> /var/tmp/gwbv-selftest.c
goto-cc -Ilib -c /var/tmp/gwbv-selftest.c -o /var/tmp/gwbv-selftest.gb
rm -f /var/tmp/gwbv-selftest.c /var/tmp/gwbv-selftest.gb
echo setup ok
