WORLD_CC = 'source/world_builder/world.cc'
ALIASES = {
    'WorldBuilder::World::properties|std::array<double, 3>': 'World_properties_3d',
    'WorldBuilder::World::properties|std::array<double, 2>': 'World_properties_2d',
}
UNITS = [
    dict(name='output_size', enforce='World_properties_output_size', contracts='c01_output_size.c',
         targets=[dict(tu=WORLD_CC, qual='WorldBuilder::World::properties_output_size')],
         aliases=ALIASES, defines={'MAXP': 8, 'WB_VEC_CAP': 4, 'WB_CAP_vec_arr_uint_3': 8}, defines_thorough={'MAXP': 64, 'WB_CAP_vec_arr_uint_3': 64},
         expect_fail=['REACHABILITY-GUARD'],
         loops={('World_properties_output_size', 1): dict(
             contract='__CPROVER_assigns(wb_i1, n_output_entries, g_prefix, wb_thrown)\n'
                      '__CPROVER_loop_invariant(wb_i1 <= wb_r1->n && n_output_entries == (g_prefix & 0xFFFFFFFFul) && !wb_thrown)\n'
                      '__CPROVER_loop_invariant(g_prefix <= wb_i1 * 42949672950ul)\n'
                      '__CPROVER_decreases(wb_r1->n - wb_i1)',
             begin='g_prefix += WIDTH(property);')}),
    dict(name='props2d', enforce='World_properties_2d', contracts='c01_2d.c',
         targets=[dict(tu=WORLD_CC, qual='WorldBuilder::World::properties', sig='std::array<double, 2>', cname='World_properties_2d')],
         aliases=ALIASES, stub=['World_properties_3d'], outline_fp=True,
         replace=['World_properties_3d', 'CoordinateSystems_Interface_natural_coordinate_system',
                  'CoordinateSystems_Interface_natural_to_cartesian_coordinates'],
         defines={'MAXP': 4, 'WB_VEC_CAP': 4, 'WB_CAP_vec_arr_uint_3': 4, 'WB_CAP_vec_double': 48},
         defines_thorough={'MAXP': 8, 'WB_CAP_vec_arr_uint_3': 8, 'WB_CAP_vec_double': 96},
         expect_fail=['REACHABILITY-GUARD'],
         loops={('World_properties_2d', 1): dict(
             contract='__CPROVER_assigns(wb_i1, counter, results)\n'
                      '__CPROVER_loop_invariant(wb_i1 <= wb_r1->n && wb_r1 == properties && counter == g_pre[wb_i1] && results.n == g_total && counter <= g_total)\n'
                      '__CPROVER_loop_invariant((wb_g_slot < g_total && !g_invel) ==> SAMEL(results.data[wb_g_slot], g_before))\n'
                      '__CPROVER_loop_invariant((wb_g_slot < g_total && g_invel && g_veloff >= counter) ==> '
                      '(SAMEL(results.data[g_veloff], g_v0) && SAMEL(results.data[g_veloff + 1], g_v1) && SAMEL(results.data[g_veloff + 2], g_v2)))\n'
                      '__CPROVER_loop_invariant((wb_g_slot < g_total && g_invel && g_veloff < counter) ==> '
                      '(SAMEL(results.data[g_veloff], g_proj) && SAMEL(results.data[g_veloff + 1], g_v2) && results.data[g_veloff + 2] == 0.0))\n'
                      '__CPROVER_decreases(wb_r1->n - wb_i1)',
             pre='g_proj = E_add_mul_a_a_mul_a_a(this_->surface_coord_conversions.point.e[0], g_v0, this_->surface_coord_conversions.point.e[1], g_v1);')}),
]
