META = dict(
    title='Query answers are a pure function of the input file and the query',
    technique='CBMC code contracts (DFCC) on C extracted mechanically from the real C++ (clang AST), loop invariants, ghost layout tables',
    level_text='Proof, per function and for all argument values within the stated object-size bounds, that (a) the announced '
               'size equals the sum of block widths, (b) the 2D entry point returns the 3D answer slot for slot (velocity blocks '
               'projected), walking the request with the same layout as the 3D evaluator. A failing obligation is replayed on the '
               'real library (batched vs stand-alone, bit for bit).',
    level_note='Trusted: clang AST + cxx2c translator, shims for std::vector/array, CBMC and SAT back ends, the assumed interface '
               'contract of callees listed in the evidence (coordinate-system virtuals). Bounds are on request length / grains, not on iterations.',
    scope='properties_output_size (sum of widths, frame); 2D wrapper: stride == layout of the 3D answer, slots outside velocity blocks bit-identical, one 3D evaluation',
    not_covered=['the inside of temperature/composition/grains models and of distance_point_from_curved_planes beyond their frame',
                 'independence from other worlds alive in the process beyond the absence of writable globals in the translated query path'],
    enforced_elsewhere={'World_properties_3d': 'props3d (layout clauses: number of values == g_total, unknown property id refused)'},
)
WORLD_CC = 'source/world_builder/world.cc'
ALIASES = {
    'WorldBuilder::Objects::NaturalCoordinate::NaturalCoordinate|const Point<3>': 'NaturalCoordinate_ctor',
    'WorldBuilder::World::properties|std::array<double, 3>': 'World_properties_3d',
    'WorldBuilder::World::properties|std::array<double, 2>': 'World_properties_2d',
}
UNITS = [
    dict(name='output_size', enforce='World_properties_output_size', contracts='c01_output_size.c',
         targets=[dict(tu=WORLD_CC, qual='WorldBuilder::World::properties_output_size')],
         aliases=ALIASES, defines={'MAXP': 8, 'WB_VEC_CAP': 4, 'WB_CAP_vec_arr_uint_3': 8}, defines_thorough={'MAXP': 64, 'WB_CAP_vec_arr_uint_3': 64},
         expect_fail=['REACHABILITY-GUARD'],
         loops={('World_properties_output_size', 1): dict(
             contract='__CPROVER_assigns(wb_i1, n_output_entries, g_prefix, wb_thrown)\n'
                      '__CPROVER_loop_invariant(wb_i1 <= wb_r1->n && n_output_entries == (g_prefix & 0xFFFFFFFFul) && !wb_thrown)\n'
                      '__CPROVER_loop_invariant(g_prefix <= wb_i1 * 42949672950ul)\n'
                      '__CPROVER_decreases(wb_r1->n - wb_i1)',
             begin='g_prefix += WIDTH(property);')}),
    dict(name='props3d', enforce='World_properties_3d', contracts='c01_3d.c',
         targets=[dict(tu=WORLD_CC, qual='WorldBuilder::World::properties', sig='std::array<double, 3>', cname='World_properties_3d')],
         aliases=ALIASES, stub=['NaturalCoordinate_ctor'], outline_fp=True,
         replace=['NaturalCoordinate_ctor', 'GravityModel_Interface_gravity_norm', 'Features_Interface_properties'],
         defines={'MAXP': 4, 'WB_VEC_CAP': 4, 'WB_CAP_vec_arr_uint_3': 4, 'WB_CAP_vec_double': 48, 'WB_CAP_vec_ulong': 4},
         defines_thorough={'MAXP': 8, 'WB_CAP_vec_arr_uint_3': 8, 'WB_CAP_vec_double': 96, 'WB_CAP_vec_ulong': 8, 'WB_VEC_CAP': 8},
         expect_fail=['REACHABILITY-GUARD'],
         canaries=[(r'vec_double_push\(&output, \(-1\)\)', 'vec_double_push(&output, (0))', 'tag background 0 instead of -1'),
                   (r'e\[\(\(unsigned long\)2\)\] \* \(\(unsigned int\)10\)', 'e[((unsigned long)2)] * ((unsigned int)9)', 'grains block of 9 values per grain'),
                   (r'(output\.data\[wb_idx\(entry_in_output[^;]*= this_->surface_temperature)', r'\1 + 1.0', 'forced surface temperature off by one kelvin'),
                   (r'if \(\(properties_local\.data\[wb_idx\(\(\(unsigned long\)i_property\), properties_local\.n\)\]\.e\[\(\(unsigned long\)0\)\] == \(\(unsigned int\)1\)\)\)', 'if (1)', 'forced temperature written into every block'),
                   (r'Features_Interface_properties\(\(\*it\), &point, &natural_coordinate, depth,', 'Features_Interface_properties((*it), &point, &natural_coordinate, depth + 1.0,', 'features evaluated at another depth')],
         loops={
           ('World_properties_3d', 1): dict(
             pre='if (wb_g_slot < g_total) g_bg = (REQ(g_blk).e[0] == 1u) ? (FORCED(this_, depth) ? this_->surface_temperature : '
                 'E_mul_a_exp_mul_div_mul_a_a_a_a(this_->potential_mantle_temperature, this_->thermal_expansion_coefficient, gravity_norm, this_->specific_heat, depth)) '
                 ': (REQ(g_blk).e[0] == 4u ? -1.0 : 0.0);',
             contract='__CPROVER_assigns(i_property, output, entry_in_output, properties_local, wb_thrown)\n'
                      '__CPROVER_loop_invariant(i_property <= properties->n && !wb_thrown && output.n == g_pre[i_property] && entry_in_output.n == i_property && properties_local.n == i_property)\n'
                      '__CPROVER_loop_invariant(g_pre[i_property] <= g_total && (!g_allvalid ==> g_bad >= i_property))\n'
                      '__CPROVER_loop_invariant(FORALL_K(TAB_OK, i_property))\n'
                      '__CPROVER_loop_invariant((wb_g_slot < g_total && i_property > g_blk) ==> SAMEL(output.data[wb_g_slot], g_bg))\n'
                      '__CPROVER_decreases(properties->n - i_property)'),
           ('World_properties_3d', 2): dict(
             contract='__CPROVER_assigns(wb_i2, output, wb_thrown, g_next_feature, g_chain)\n'
                      '__CPROVER_loop_invariant(wb_i2 <= wb_r2->n && wb_r2 == &this_->parameters.features && g_next_feature == wb_i2 && !wb_thrown && output.n == g_total)\n'
                      '__CPROVER_loop_invariant((wb_g_slot < g_total && wb_i2 == 0) ==> SAMEL(output.data[wb_g_slot], g_bg))\n'
                      '__CPROVER_loop_invariant((wb_g_slot < g_total && wb_i2 > 0) ==> SAMEL(output.data[wb_g_slot], g_chain))\n'
                      '__CPROVER_decreases(wb_r2->n - wb_i2)'),
           ('World_properties_3d', 3): dict(
             pre='if (wb_g_slot < g_total) g_last = output.data[wb_g_slot];',
             contract='__CPROVER_assigns(i_property, output)\n'
                      '__CPROVER_loop_invariant(i_property <= properties_local.n && output.n == g_total)\n'
                      '__CPROVER_loop_invariant((wb_g_slot < g_total && REQ(g_blk).e[0] == 1u && i_property > g_blk) ==> SAMEL(output.data[wb_g_slot], this_->surface_temperature))\n'
                      '__CPROVER_loop_invariant((wb_g_slot < g_total && !(REQ(g_blk).e[0] == 1u && i_property > g_blk)) ==> SAMEL(output.data[wb_g_slot], g_last))\n'
                      '__CPROVER_decreases(properties_local.n - i_property)'),
         }),
    dict(name='props2d', enforce='World_properties_2d', contracts='c01_2d.c',
         targets=[dict(tu=WORLD_CC, qual='WorldBuilder::World::properties', sig='std::array<double, 2>', cname='World_properties_2d')],
         aliases=ALIASES, stub=['World_properties_3d'], outline_fp=True,
         replace=['World_properties_3d', 'CoordinateSystems_Interface_natural_coordinate_system',
                  'CoordinateSystems_Interface_natural_to_cartesian_coordinates'],
         defines={'MAXP': 4, 'WB_VEC_CAP': 4, 'WB_CAP_vec_arr_uint_3': 4, 'WB_CAP_vec_double': 48},
         defines_thorough={'MAXP': 8, 'WB_CAP_vec_arr_uint_3': 8, 'WB_CAP_vec_double': 96},
         expect_fail=['REACHABILITY-GUARD'],
         loops={('World_properties_2d', 1): dict(
             contract='__CPROVER_assigns(wb_i1, counter, results)\n'
                      '__CPROVER_loop_invariant(wb_i1 <= wb_r1->n && wb_r1 == properties && counter == g_pre[wb_i1] && results.n == g_total && counter <= g_total)\n'
                      '__CPROVER_loop_invariant((wb_g_slot < g_total && !g_invel) ==> SAMEL(results.data[wb_g_slot], g_before))\n'
                      '__CPROVER_loop_invariant((wb_g_slot < g_total && g_invel && g_veloff >= counter) ==> '
                      '(SAMEL(results.data[g_veloff], g_v0) && SAMEL(results.data[g_veloff + 1], g_v1) && SAMEL(results.data[g_veloff + 2], g_v2)))\n'
                      '__CPROVER_loop_invariant((wb_g_slot < g_total && g_invel && g_veloff < counter) ==> '
                      '(SAMEL(results.data[g_veloff], g_proj) && SAMEL(results.data[g_veloff + 1], g_v2) && results.data[g_veloff + 2] == 0.0))\n'
                      '__CPROVER_decreases(wb_r1->n - wb_i1)',
             pre='g_proj = E_add_mul_a_a_mul_a_a(this_->surface_coord_conversions.point.e[0], g_v0, this_->surface_coord_conversions.point.e[1], g_v1);')}),
]


# ----------------------------------------------------------------------------- native replay oracle
import os, random, sys
sys.path.insert(0, os.path.join(os.path.dirname(os.path.abspath(__file__)), '..', 'lib'))

WORLD = """{
  "version":"1.1", "cross section":[[0,0],[100e3,50e3]], "coordinate system":{"model":"cartesian"},
  "gravity model":{"model":"uniform", "magnitude":10}, %(extra)s
  "features":[
    {"model":"continental plate", "name":"A", "max depth":250e3, "coordinates":[[-1e6,-1e6],[1e6,-1e6],[1e6,1e6],[-1e6,1e6]],
     "temperature models":[{"model":"uniform", "temperature":1000}],
     "composition models":[{"model":"uniform", "compositions":[0,1], "fractions":[0.25,0.75]}],
     "grains models":[{"model":"uniform", "compositions":[0,1],
        "rotation matrices":[[[11,21,31],[41,51,61],[71,81,91]],[[101,111,121],[131,141,151],[161,171,181]]], "grain sizes":[0.3,0.7]}],
     "velocity models":[{"model":"uniform raw", "velocity":[1,2,3]}]},
    {"model":"mantle layer", "name":"B", "min depth":250e3, "max depth":660e3, "coordinates":[[-1e6,-1e6],[1e6,-1e6],[1e6,1e6],[-1e6,1e6]],
     "temperature models":[{"model":"adiabatic"}], "composition models":[{"model":"uniform", "compositions":[2]}]}
  ]}"""


def width(p):
    return 10 * p[2] if p[0] == 3 else 3 if p[0] == 5 else 1


def check_request(q, req, x, z, depth, y_of_x=None):
    """property-level oracle of C01: every block of the batched 2D (and 3D) answer is bit-identical to the stand-alone
    query of that entry, the number of values is the announced one."""
    import oracle
    out = []
    for kind, pt in (('p2', '%r %r' % (x, z)), ('p3', '%r %r %r' % (x * 0.8944271909999159, x * 0.4472135954999579, z))):
        st, full = q.ask('%s %s %r %s' % (kind, pt, depth, oracle.props_arg(req)))
        if st != 'OK':
            return dict(status='holds', detail='batched query answered %s %s' % (st, full))
        st2, size = q.ask('size ' + oracle.props_arg(req))
        if st2 == 'OK' and int(size[0]) != len(full):
            return dict(status='violated', detail='%s returned %d values, properties_output_size announces %s for %s' % (kind, len(full), size[0], req))
        off = 0
        for k, p in enumerate(req):
            st3, alone = q.ask('%s %s %r %s' % (kind, pt, depth, oracle.props_arg([p])))
            w = width(p)
            blk = full[off:off + w]
            if st3 == 'OK' and [oracle.bits(v) for v in blk] != [oracle.bits(v) for v in alone]:
                return dict(status='violated', request=req, entry=k, interface=kind,
                            detail='block %d of the batched %s answer for request %s at depth %r is %s, the stand-alone query of %s answers %s'
                                   % (k, kind, req, depth, [float.fromhex(v) for v in blk], p, [float.fromhex(v) for v in alone]))
            off += w
    return dict(status='holds')


def native_oracle(witness, work, search_seed=None):
    import oracle
    extra = witness.get('world_extra', '')
    q = oracle.Q(WORLD % dict(extra=extra), work)
    try:
        if q.construct_error:
            return dict(status='error', detail=q.construct_error)
        reqs = [witness['request']] if witness.get('request') else []
        depth = witness.get('depth', 10e3)
        for r in reqs:
            res = check_request(q, r, 30e3, 990e3, depth)
            if res['status'] == 'violated':
                return res
        if search_seed is not None:
            rnd = random.Random(search_seed)
            for i in range(150):
                n = rnd.randint(1, 4)
                r = []
                for _ in range(n):
                    t = rnd.choice([1, 2, 3, 3, 4, 5, 5])
                    r.append([t, rnd.randint(0, 2), rnd.randint(0, 3) if t == 3 else 0])
                d = rnd.choice([0.0, 10e3, 100e3, 300e3, 700e3])
                res = check_request(q, r, rnd.uniform(-50e3, 50e3), 1000e3 - d, d)
                if res['status'] == 'violated':
                    res['found_by'] = 'seeded native search (seed %d, try %d)' % (search_seed, i)
                    return res
        res = history_check(work, search_seed or 1)
        if res['status'] == 'violated':
            return res
        return dict(status='holds', detail='oracle holds on the witness%s; answers independent of earlier queries and of a second world alive in the process' % (' and on 150 random requests' if search_seed is not None else ''))
    finally:
        q.close()


def history_check(work, seed):
    """answers do not depend on earlier queries nor on other worlds alive in the process: a world queried in a fresh
    process must answer exactly like the same world queried after / interleaved with queries on another world"""
    import oracle
    wa = WORLD % dict(extra='')
    wb = WORLD % dict(extra='"potential mantle temperature":1450, "specific heat":1000,')
    rnd = random.Random(seed)
    queries = []
    for i in range(40):
        d = rnd.choice([0.0, 10e3, 100e3, 300e3, 700e3, 700e3, 1200e3])
        x, y = rnd.uniform(-2e6, 2e6), rnd.uniform(-2e6, 2e6)
        req = rnd.choice([[[1, 0, 0]], [[1, 0, 0], [2, 0, 0]], [[5, 0, 0], [1, 0, 0], [4, 0, 0]], [[3, 0, 2], [1, 0, 0]]])
        queries.append('p3 %r %r %r %r %s' % (x, y, 3000e3 - d, d, oracle.props_arg(req)))
    fresh = oracle.Q(wb, work, name='fresh')
    both = oracle.Q(wa, work, name='both', more_worlds=(wb,))
    try:
        if fresh.construct_error or both.construct_error:
            return dict(status='error', detail=str(fresh.construct_error or both.construct_error))
        for qy in queries:
            ref = fresh.ask(qy)
            both.ask('use 0')
            both.ask(qy)                       # the same query on the other world first
            both.ask('use 1')
            got = both.ask(qy)
            if ref[0] == 'OK' and got[0] == 'OK' and [oracle.bits(v) for v in ref[1]] != [oracle.bits(v) for v in got[1]]:
                return dict(status='violated', detail='world B answers %s to "%s" in a fresh process but %s directly after the same query on world A alive in the same process'
                                                      % ([float.fromhex(v) for v in ref[1]], qy, [float.fromhex(v) for v in got[1]]))
        return dict(status='holds')
    finally:
        fresh.close()
        both.close()


def witness_from_trace(unit, failure, seed):
    t = failure.get('trace') or {}
    def num(k, dflt):
        v = t.get(k)
        if v is None:
            return dflt
        try:
            return int(str(v).rstrip('ul'))
        except ValueError:
            return dflt
    e = [num('property.e[0]', 3), num('property.e[1]', 0), num('property.e[2]', 2)]
    if not (1 <= e[0] <= 5):
        e[0] = 3
    e[1] = e[1] % 3
    e[2] = e[2] % 4 if e[0] == 3 else 0
    return dict(request=[e, [5, 0, 0]], from_counterexample='loop-state entry property=%s embedded in a two-entry request' % e)
