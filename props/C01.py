WORLD_CC = 'source/world_builder/world.cc'
ALIASES = {
    'WorldBuilder::World::properties|std::array<double, 3>': 'World_properties_3d',
    'WorldBuilder::World::properties|std::array<double, 2>': 'World_properties_2d',
}
UNITS = [
    dict(name='output_size', enforce='World_properties_output_size', contracts='c01_output_size.c',
         targets=[dict(tu=WORLD_CC, qual='WorldBuilder::World::properties_output_size')],
         aliases=ALIASES, defines={'MAXP': 8}, defines_thorough={'MAXP': 64},
         expect_fail=['REACHABILITY-GUARD'],
         loops={('World_properties_output_size', 1): dict(
             contract='__CPROVER_assigns(wb_i1, n_output_entries, g_prefix, wb_thrown)\n'
                      '__CPROVER_loop_invariant(wb_i1 <= wb_r1->n && n_output_entries == (g_prefix & 0xFFFFFFFFul) && !wb_thrown)\n'
                      '__CPROVER_loop_invariant(g_prefix <= wb_i1 * 42949672950ul)\n'
                      '__CPROVER_decreases(wb_r1->n - wb_i1)',
             begin='g_prefix += WIDTH(property);')}),
]
