import os, sys, json, random
sys.path.insert(0, os.path.join(os.path.dirname(os.path.abspath(__file__)), '..', 'lib'))
META = dict(
    title='Seeded randomness is reproducible and random grains are valid',
    technique='CBMC code contracts (DFCC) on the mechanically extracted random composition model: frame condition (only the engine state is assigned), ghost draw counter, distribution draw as contract stub with the [a,b) guarantee',
    level_text='Proof for all inputs within the list bound: the random composition model mutates nothing but the world\'s random number engine, draws '
               'exactly once when it applies and not at all otherwise (so answers are a function of file, seed and query history), and the drawn '
               'value comes from the [min value, max value) pair configured for the requested composition.',
    level_note='Trusted: translator, shims (std::uniform_real_distribution draw is a stub: advances the engine, result in [a,b)), CBMC. Seed wiring in the '
               'World constructor / parse_entries (rapidjson-bound) is not under contract.',
    scope='ContinentalPlateModels::Composition::Random::get_composition (the only random composition model in the code base)',
    not_covered=['random uniform grain distributions: orthonormality and determinant of the rotation matrices, normalised sizes summing to one (floating-point products/quotients)',
                 'engine seeding from the constructor argument / "random number seed"', '"different seeds give different draws" (a statement about mt19937)'],
    enforced_elsewhere={},
)
UNITS = []
for fam, fdir in [('ContinentalPlate', 'continental_plate')]:
    fn = 'Features_%sModels_Composition_Random_get_composition' % fam
    UNITS.append(dict(
        name='%s_C_random' % fdir, enforce=fn, contracts='c15_random.c', harness='h_composition_random',
        targets=[dict(tu='source/world_builder/features/%s_models/composition/random.cc' % fdir,
                      qual='WorldBuilder::Features::%sModels::Composition::Random::get_composition' % fam)],
        stub=['Objects_Surface_local_value', 'Objects_NaturalCoordinate_get_surface_point'],
        nothrow=['Objects_NaturalCoordinate_get_surface_point'],
        replace=['Objects_Surface_local_value', 'Objects_NaturalCoordinate_get_surface_point', 'wb_uniform_real_draw'],
        defines={'FAM': fam, 'MAXP': 4, 'WB_VEC_CAP': 2, 'WB_CAP_vec_uint': 4, 'WB_CAP_vec_double': 4},
        defines_thorough={'MAXP': 16, 'WB_CAP_vec_uint': 16, 'WB_CAP_vec_double': 16},
        expect_fail=['REACHABILITY-GUARD'], outline_fp='all',
        loops={(fn, 1): dict(
            contract='__CPROVER_assigns(i)\n'
                     '__CPROVER_loop_invariant(i <= this_->compositions.n && g_draws == 0 && (g_listed ==> i <= g_first))\n'
                     '__CPROVER_decreases(this_->compositions.n - i)')}))


def native_oracle(witness, work, search_seed=None):
    """random compositions lie within their configured bounds; two worlds built alike and queried alike agree bit for bit"""
    import oracle
    text = json.dumps({"version": "1.1", "coordinate system": {"model": "cartesian"}, "features": [
        {"model": "continental plate", "name": "A", "max depth": 300e3, "coordinates": [[0, 0], [1e6, 0], [1e6, 1e6], [0, 1e6]],
         "composition models": [{"model": "random", "compositions": [0, 1], "min value": [0.0, 5.0], "max value": [1.0, 6.0]}]}]})
    q1 = oracle.Q(text, work, seed=7, name='r1')
    q2 = oracle.Q(text, work, seed=7, name='r2')
    try:
        if q1.construct_error:
            return dict(status='error', detail=q1.construct_error)
        rnd = random.Random(search_seed or 1)
        for i in range(60):
            x, y, d = rnd.uniform(1e3, 9e5), rnd.uniform(1e3, 9e5), rnd.uniform(0, 250e3)
            c = i % 2
            a1 = q1.ask('c3 %r %r %r %r %d' % (x, y, 1000e3 - d, d, c))
            a2 = q2.ask('c3 %r %r %r %r %d' % (x, y, 1000e3 - d, d, c))
            if a1 != a2:
                return dict(status='violated', detail='two worlds built from the same file and seed and queried alike disagree at query %d: %s vs %s' % (i, a1, a2))
            v = float.fromhex(a1[1][0])
            lo, hi = (0.0, 1.0) if c == 0 else (5.0, 6.0)
            if not (lo <= v < hi):
                return dict(status='violated', detail='random composition %d is configured with bounds [%r, %r) but the library returned %r (compositions [0,1], min value [0,5], max value [1,6])' % (c, lo, hi, v))
        return dict(status='holds', detail='60 draws within their bounds; two equal worlds agree')
    finally:
        q1.close()
        q2.close()


def witness_from_trace(unit, failure, seed):
    return {}
