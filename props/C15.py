import os, sys, json, random
sys.path.insert(0, os.path.join(os.path.dirname(os.path.abspath(__file__)), '..', 'lib'))
META = dict(
    title='Seeded randomness is reproducible and random grains are valid',
    technique='CBMC code contracts (DFCC) on the mechanically extracted random composition model: frame condition (only the engine state is assigned), ghost draw counter, distribution draw as contract stub with the [a,b) guarantee',
    level_text='Proof for all inputs within the list bound: the random composition model mutates nothing but the world\'s random number engine, draws '
               'exactly once when it applies and not at all otherwise (so answers are a function of file, seed and query history), and the drawn '
               'value comes from the [min value, max value) pair configured for the requested composition. World::parse_entries reseeds '
               'the engine with (entry + MPI rank) for every "random number seed" entry >= 0, zero included, exactly once, and leaves it as '
               'constructed for a negative entry; World::World seeds the engine with its seed argument (modulo 2^32) before the file is parsed and hands the '
               'other arguments to Parameters::initialize unchanged.',
    level_note='Trusted: translator, shims (std::uniform_real_distribution draw is a stub: advances the engine, result in [a,b); mt19937::seed(s) sets the state to an '
               'uninterpreted function of s), CBMC. Assumed, unchecked: entry + MPI rank does not overflow int (signed overflow for entry INT_MAX on rank >= 1). '
               '',
    scope='ContinentalPlateModels::Composition::Random::get_composition (the only random composition model in the code base); World::parse_entries (seed entry); World::World (constructor seed)',
    not_covered=['fixed / normalised grain sizes of the uniform grains model are under contract in C05 (units *_G_uniform: sizes as given, or 1/number of grains each)', 'random uniform grain distributions: orthonormality and determinant of the rotation matrices, normalised sizes summing to one (floating-point products/quotients)',
                 '"different seeds give different draws" (a statement about mt19937)'],
    enforced_elsewhere={},
)
UNITS = []
for fam, fdir in [('ContinentalPlate', 'continental_plate')]:
    fn = 'Features_%sModels_Composition_Random_get_composition' % fam
    UNITS.append(dict(
        name='%s_C_random' % fdir, enforce=fn, contracts='c15_random.c', harness='h_composition_random',
        targets=[dict(tu='source/world_builder/features/%s_models/composition/random.cc' % fdir,
                      qual='WorldBuilder::Features::%sModels::Composition::Random::get_composition' % fam)],
        stub=['Objects_Surface_local_value', 'Objects_NaturalCoordinate_get_surface_point'],
        nothrow=['Objects_NaturalCoordinate_get_surface_point'],
        replace=['Objects_Surface_local_value', 'Objects_NaturalCoordinate_get_surface_point', 'wb_uniform_real_draw'],
        defines={'FAM': fam, 'MAXP': 4, 'WB_VEC_CAP': 2, 'WB_CAP_vec_uint': 4, 'WB_CAP_vec_double': 4},
        defines_thorough={'MAXP': 16, 'WB_CAP_vec_uint': 16, 'WB_CAP_vec_double': 16},
        expect_fail=['REACHABILITY-GUARD'], outline_fp='all',
        loops={(fn, 1): dict(
            contract='__CPROVER_assigns(i)\n'
                     '__CPROVER_loop_invariant(i <= this_->compositions.n && g_draws == 0 && (g_listed ==> i <= g_first))\n'
                     '__CPROVER_decreases(this_->compositions.n - i)')}))

# World::parse_entries: seed wiring ("random number seed" -> engine), shared contract file with C03/C09
WORLD_PARSE = dict(
    name='world_parse_entries', enforce='World_parse_entries', contracts='c_world_parse.c', harness='h_world_parse',
    targets=[dict(tu='source/world_builder/world.cc', qual='WorldBuilder::World::parse_entries', cname='World_parse_entries')],
    stub_prefixes=['Parameters_'],
    stub=['CoordinateSystems_Interface_parse_entries', 'GravityModel_Interface_parse_entries', 'Features_Interface_parse_entries',
          'CoordinateSystems_Interface_natural_coordinate_system'],
    replace=['Parameters_get__string__ret_double', 'Parameters_get__string__ret_bool', 'Parameters_get__string__ret_int',
             'Parameters_get__string__ret_basic_string_char', 'Parameters_get_unique_pointer__ret_CoordinateSystems_Interface',
             'Parameters_get_unique_pointer__ret_GravityModel_Interface', 'Parameters_get_unique_pointers__ret_Features_Interface',
             'Parameters_check_entry', 'Parameters_get_vector__string__ret_Point_2', 'Parameters_enter_subsection', 'Parameters_leave_subsection',
             'CoordinateSystems_Interface_parse_entries', 'GravityModel_Interface_parse_entries', 'Features_Interface_parse_entries',
             'CoordinateSystems_Interface_natural_coordinate_system'],
    loops={('World_parse_entries', 2): dict(
        contract='__CPROVER_assigns(i, wb_thrown)\n'
                 '__CPROVER_loop_invariant(i <= prm->features.n && !wb_thrown)\n'
                 '__CPROVER_decreases(prm->features.n - i)')},
    unwind_complete=3, outline_fp='all', defines={'WB_VEC_CAP': 2}, expect_fail=['REACHABILITY-GUARD'], timeout=900,
    canaries=[(r'if \(\(local_seed >= 0\)\)', 'if ((local_seed > 0))', 'seed entry 0 ignored'),
              (r'this_->specific_heat = wb_t27;', 'this_->specific_heat = wb_t25;', 'specific heat takes the value of the expansivity key'),
              (r'this_->dim = \(\(unsigned int\)3\);', 'this_->dim = ((unsigned int)2);', 'dim 2 without cross section'),
              (r'Point2_op_sub\(&this_->cross_section.data\[wb_idx\(\(\(unsigned long\)0\), this_->cross_section.n\)\], &this_->cross_section.data\[wb_idx\(\(\(unsigned long\)1\), this_->cross_section.n\)\]\)',
               'Point2_op_sub(&this_->cross_section.data[wb_idx(((unsigned long)1), this_->cross_section.n)], &this_->cross_section.data[wb_idx(((unsigned long)0), this_->cross_section.n)])', 'cross-section direction reversed')])
UNITS.append(WORLD_PARSE)
UNITS.append(dict(
    name='world_ctor', enforce='World_ctor', contracts='c15_world_ctor.c', harness='h_world_ctor',
    targets=[dict(tu='source/world_builder/world.cc', qual='WorldBuilder::World::World', cname='World_ctor')],
    stub_prefixes=['Parameters_'], stub=['World_parse_entries', 'World_declare_entries'],
    replace=['Parameters_ctor', 'World_declare_entries', 'Parameters_initialize', 'World_parse_entries'],
    outline_fp='all', unwind_complete=3, defines={'WB_VEC_CAP': 2}, expect_fail=['REACHABILITY-GUARD'],
    canaries=[(r'wb_mt19937_ctor\(random_number_seed\)', 'wb_mt19937_ctor(random_number_seed + 1ul)', 'engine seeded with seed + 1')]))


def native_oracle(witness, work, search_seed=None):
    """random compositions lie within their configured bounds; two worlds built alike and queried alike agree bit for bit"""
    import oracle
    text = json.dumps({"version": "1.1", "coordinate system": {"model": "cartesian"}, "features": [
        {"model": "continental plate", "name": "A", "max depth": 300e3, "coordinates": [[0, 0], [1e6, 0], [1e6, 1e6], [0, 1e6]],
         "composition models": [{"model": "random", "compositions": [0, 1], "min value": [0.0, 5.0], "max value": [1.0, 6.0]}]}]})
    q1 = oracle.Q(text, work, seed=7, name='r1')
    q2 = oracle.Q(text, work, seed=7, name='r2')
    try:
        if q1.construct_error:
            return dict(status='error', detail=q1.construct_error)
        rnd = random.Random(search_seed or 1)
        for i in range(60):
            x, y, d = rnd.uniform(1e3, 9e5), rnd.uniform(1e3, 9e5), rnd.uniform(0, 250e3)
            c = i % 2
            a1 = q1.ask('c3 %r %r %r %r %d' % (x, y, 1000e3 - d, d, c))
            a2 = q2.ask('c3 %r %r %r %r %d' % (x, y, 1000e3 - d, d, c))
            if a1 != a2:
                return dict(status='violated', detail='two worlds built from the same file and seed and queried alike disagree at query %d: %s vs %s' % (i, a1, a2))
            v = float.fromhex(a1[1][0])
            lo, hi = (0.0, 1.0) if c == 0 else (5.0, 6.0)
            if not (lo <= v < hi):
                return dict(status='violated', detail='random composition %d is configured with bounds [%r, %r) but the library returned %r (compositions [0,1], min value [0,5], max value [1,6])' % (c, lo, hi, v))
    finally:
        q1.close()
        q2.close()
    # the "random number seed" entry of the file decides the draws, whatever seed the constructor was given: every
    # entry >= 0 (0 included) reseeds the engine, so worlds built with different constructor seeds agree
    entries = [0, 1, 17]
    if isinstance(witness.get('seed_entry'), int) and witness['seed_entry'] >= 0 and witness['seed_entry'] not in entries:
        entries.insert(0, witness['seed_entry'])
    for entry in entries:
        d = json.loads(text)
        d['random number seed'] = entry
        t2 = json.dumps(d)
        qa = oracle.Q(t2, work, seed=3, name='sa')
        qb = oracle.Q(t2, work, seed=11, name='sb')
        try:
            if qa.construct_error:
                return dict(status='error', detail=qa.construct_error)
            for i in range(6):
                line = 'c3 %r %r %r %r 0' % (1e5 + 1e4 * i, 2e5, 1000e3 - 1e4, 1e4)
                a, b = qa.ask(line), qb.ask(line)
                if a != b:
                    return dict(status='violated', input={'random number seed': entry, 'constructor seeds': [3, 11], 'query': line},
                                detail='"random number seed": %d in the file does not decide the draws: worlds constructed with seed 3 and seed 11 disagree at draw %d (%s vs %s)' % (entry, i, a[1], b[1]))
        finally:
            qa.close()
            qb.close()
    return dict(status='holds', detail='60 draws within their bounds; two equal worlds agree; file seed entries %s override the constructor seed' % entries)


def witness_from_trace(unit, failure, seed):
    w = {}
    for k, v in (failure.get('trace') or {}).items():
        if k == 'g_seed_entry':
            try:
                w['seed_entry'] = int(str(v).rstrip('ul'))
            except ValueError:
                pass
    return w
