import os, sys, json
sys.path.insert(0, os.path.join(os.path.dirname(os.path.abspath(__file__)), '..', 'lib'))
META = dict(
    title='Malformed or inconsistent input is rejected by an exception, never by a crash',
    technique='CBMC code contracts (DFCC) on mechanically extracted parse_entries functions: Parameters::get* are contract stubs answering arbitrary schema-valid values; postcondition "exception pending or representation invariant established"',
    level_text='Partial. Proof for every option string the parameter file may contain: Spherical::parse_entries either raises an exception or '
               'sets the depth-method enum to the enumerator of the recognised option - no value leaves the field uninitialised. Proof for every '
               'list length within the vector bound (3 quick / 5 thorough) and all values: Plume::parse_entries either raises an exception or leaves one cross-section depth, '
               'semi-major axis, eccentricity and rotation angle per coordinate (what Plume::properties indexes by), and terminates for every length incl. 0; '
               'PlumeModels::Temperature::Gaussian::parse_entries either raises an exception or leaves three per-depth lists of equal length; '
               'OceanicPlateModels::Temperature::HalfSpaceModel/PlateModel::parse_entries and SubductingPlateModels::Temperature::MassConserving::parse_entries either raise an exception or leave one spreading velocity per ridge point '
               '(<= 3 ridges of <= 2 points) and read the value table only inside its bounds.',
    level_note='Trusted: translator, shims (std::string = handle determined by content for literals, arbitrary for file values), CBMC; the verified configuration is '
               '-DNDEBUG (the one the pinned suite builds): WBAssert is compiled out. Parameters::get*/get_vector are contract stubs answering any value/list. Bytes -> JSON -> '
               'schema validation (rapidjson, Parameters::initialize) and every other parse_entries function are not under contract.',
    scope='CoordinateSystems::Spherical::parse_entries, Features::Plume::parse_entries, Features::PlumeModels::Temperature::Gaussian::parse_entries, Features::OceanicPlateModels::Temperature::HalfSpaceModel::parse_entries, ...::PlateModel::parse_entries, Features::SubductingPlateModels::Temperature::MassConserving::parse_entries',
    not_covered=['JSON parsing and schema validation', 'length consistency of list-valued parameters of other features (slab/fault segment and section tables); "subducting velocity" of the mass conserving model is assumed non-empty',
                 'formatting/comment/key-order independence', 'uninitialised reads other than the depth-method enum field', 'the Types::* declaration layer (schema bounds)'],
    enforced_elsewhere={},
)
UNITS = [
    dict(name='spherical_parse', enforce='Spherical_parse_entries', contracts='c12_parse.c', harness='h_spherical_parse',
         targets=[dict(tu='source/world_builder/coordinate_systems/spherical.cc', qual='WorldBuilder::CoordinateSystems::Spherical::parse_entries', cname='Spherical_parse_entries')],
         aliases={'WorldBuilder::Parameters::get|std::basic_string<char> (const std::string &)': 'Parameters_get_string',
                  'WorldBuilder::Parameters::get|double (const std::string &)': 'Parameters_get_double'},
         stub_prefixes=['Parameters_'],
         replace=['Parameters_enter_subsection', 'Parameters_leave_subsection', 'Parameters_get_string', 'Parameters_get_double'],
         defines={'WB_VEC_CAP': 2}, expect_fail=['REACHABILITY-GUARD']),
]
PFN = 'Features_Plume_parse_entries'
_MODEL_LOOP = lambda fld: dict(contract='__CPROVER_assigns(i, wb_thrown)\n__CPROVER_loop_invariant(i <= this_->%s.n && !wb_thrown)\n__CPROVER_decreases(this_->%s.n - i)' % (fld, fld))
_KINDS = ['Temperature', 'Composition', 'Grains', 'Velocity']
UNITS.append(dict(
    name='plume_parse', enforce=PFN, contracts='c12_plume_parse.c', harness='h_plume_parse',
    targets=[dict(tu='source/world_builder/features/plume.cc', qual='WorldBuilder::Features::Plume::parse_entries')],
    stub_prefixes=['Parameters_'],
    stub=['Features_Interface_get_coordinates', 'Features_FeatureUtilities_add_vector_unique', 'CoordinateSystems_Interface_natural_coordinate_system'] +
         ['Features_PlumeModels_%s_Interface_parse_entries' % k for k in _KINDS],
    replace=['Features_Interface_get_coordinates', 'Features_FeatureUtilities_add_vector_unique', 'CoordinateSystems_Interface_natural_coordinate_system',
             'Parameters_get__string__ret_basic_string_char', 'Parameters_get__string__ret_double', 'Parameters_get_vector__string__ret_double',
             ] +
            ['Parameters_get_unique_pointers__ret_Features_PlumeModels_%s_Interface' % k for k in _KINDS],
    outline_fp='all', defines={'WB_VEC_CAP': 2, 'WB_CAP_vec_double': 3}, defines_thorough={'WB_CAP_vec_double': 5, 'WB_CAP_vec_Point2': 5}, timeout_thorough=1800,
    expect_fail=['REACHABILITY-GUARD'], object_bits=12,
    loops={
        # the ascending-order loop (debug-only body): terminates for every list length
        (PFN, 1): dict(contract='__CPROVER_assigns(i)\n__CPROVER_loop_invariant(i == 0 || (unsigned long)i < this_->depths.n)\n__CPROVER_decreases(this_->depths.n - (unsigned long)i)'),
        (PFN, 2): dict(contract='__CPROVER_assigns(wb_i2, wb_r2->data)\n__CPROVER_loop_invariant(wb_i2 <= wb_r2->n && wb_r2 == &this_->rotation_angles)\n__CPROVER_decreases(wb_r2->n - wb_i2)'),
        (PFN, 3): dict(contract='__CPROVER_assigns(wb_i3, wb_r3->data)\n__CPROVER_loop_invariant(wb_i3 <= wb_r3->n && wb_r3 == &this_->semi_major_axis_lengths)\n__CPROVER_decreases(wb_r3->n - wb_i3)'),
        (PFN, 4): _MODEL_LOOP('temperature_models'), (PFN, 5): _MODEL_LOOP('composition_models'),
        (PFN, 6): _MODEL_LOOP('grains_models'), (PFN, 7): _MODEL_LOOP('velocity_models')}))

UNITS.append(dict(
    name='gaussian_parse', enforce='Features_PlumeModels_Temperature_Gaussian_parse_entries', contracts='c12_gaussian_parse.c', harness='h_gaussian_parse',
    targets=[dict(tu='source/world_builder/features/plume_models/temperature/gaussian.cc', qual='WorldBuilder::Features::PlumeModels::Temperature::Gaussian::parse_entries')],
    stub_prefixes=['Parameters_'], replace=['Parameters_get__string__ret_basic_string_char', 'Parameters_get_vector__string__ret_double'],
    defines={'WB_VEC_CAP': 2, 'WB_CAP_vec_double': 3}, defines_thorough={'WB_CAP_vec_double': 8}, expect_fail=['REACHABILITY-GUARD']))

for _model, _file in [('HalfSpaceModel', 'half_space_model'), ('PlateModel', 'plate_model')]:
    _fn = 'Features_OceanicPlateModels_Temperature_%s_parse_entries' % _model
    UNITS.append(dict(
        name='%s_parse' % _file, enforce=_fn, contracts='c12_ridge_tables.c', harness='h_ridge_tables',
        targets=[dict(tu='source/world_builder/features/oceanic_plate_models/temperature/%s.cc' % _file,
                      qual='WorldBuilder::Features::OceanicPlateModels::Temperature::%s::parse_entries' % _model)],
        stub_prefixes=['Parameters_', 'Objects_Surface_'], stub=['CoordinateSystems_Interface_natural_coordinate_system'],
        nothrow=['CoordinateSystems_Interface_natural_coordinate_system'],
        replace=['Parameters_get_value_at_array', 'Parameters_get_vector__string__ret_vector_Point_2'],
        outline_fp='all', unwind_complete=3, defines={'MODEL': _model, 'WB_VEC_CAP': 2, 'WB_CAP_vec_double': 4, 'WB_CAP_vec_vec_Point2': 3, 'WB_CAP_vec_vec_double': 3}, expect_fail=['REACHABILITY-GUARD'], timeout=900, object_bits=12,
        loops={
            (_fn, 1): dict(contract='__CPROVER_assigns(wb_i1, wb_r1->data[0].data, wb_r1->data[1].data, wb_r1->data[2].data)\n'
                                    '__CPROVER_loop_invariant(wb_i1 <= wb_r1->n && wb_r1 == &this_->mid_oceanic_ridges)\n__CPROVER_decreases(wb_r1->n - wb_i1)'),
            (_fn, 2): dict(contract='__CPROVER_assigns(wb_i2, wb_r2->data)\n'
                                    '__CPROVER_loop_invariant(wb_i2 <= wb_r2->n && wb_r2 == ridge_coordinates)\n__CPROVER_decreases(wb_r2->n - wb_i2)'),
            (_fn, 3): dict(contract='__CPROVER_assigns(wb_i3, n_ridge_points)\n'
                                    '__CPROVER_loop_invariant(wb_i3 <= wb_r3->n && wb_r3 == &this_->mid_oceanic_ridges && n_ridge_points == PRE(wb_i3))\n'
                                    '__CPROVER_decreases(wb_r3->n - wb_i3)'),
            (_fn, 4): dict(contract='__CPROVER_assigns(wb_i4, ridge_point_index, this_->spreading_velocities_at_each_ridge_point, wb_thrown)\n'
                                    '__CPROVER_loop_invariant(wb_i4 <= wb_r4->n && wb_r4 == &this_->mid_oceanic_ridges && SV.n == wb_i4 && (size_t)ridge_point_index == PRE(wb_i4))\n'
                                    '__CPROVER_loop_invariant(g_r < wb_i4 ==> SV.data[g_r].n == g_ridges.data[g_r].n)\n'
                                    '__CPROVER_decreases(wb_r4->n - wb_i4)'),
            (_fn, 5): dict(contract='__CPROVER_assigns(index_y, ridge_point_index, spreading_rates_for_ridge)\n'
                                    '__CPROVER_loop_invariant((unsigned long)index_y <= mid_oceanic_ridge->n && spreading_rates_for_ridge.n == (size_t)index_y && (size_t)ridge_point_index == PRE(wb_i4) + (size_t)index_y)\n'
                                    '__CPROVER_decreases(mid_oceanic_ridge->n - (unsigned long)index_y)')}))

_fn = 'Features_SubductingPlateModels_Temperature_MassConserving_parse_entries'
UNITS.append(dict(
    name='mass_conserving_parse', enforce=_fn, contracts='c12_mass_conserving.c', harness='h_mass_conserving_parse',
    targets=[dict(tu='source/world_builder/features/subducting_plate_models/temperature/mass_conserving.cc',
                  qual='WorldBuilder::Features::SubductingPlateModels::Temperature::MassConserving::parse_entries')],
    stub_prefixes=['Parameters_'], stub=['CoordinateSystems_Interface_natural_coordinate_system'], nothrow=['CoordinateSystems_Interface_natural_coordinate_system'],
    replace=['Parameters_get_value_at_array', 'Parameters_get_vector__string__ret_vector_Point_2', 'Parameters_get_vector_or_double', 'Parameters_get__string__ret_basic_string_char'],
    outline_fp='all', unwind_complete=3, defines={'WB_VEC_CAP': 2, 'WB_CAP_vec_double': 4, 'WB_CAP_vec_vec_Point2': 3, 'WB_CAP_vec_vec_double': 3},
    expect_fail=['REACHABILITY-GUARD'], timeout=900, object_bits=12,
    loops={
        (_fn, 1): dict(contract='__CPROVER_assigns(wb_i1, wb_r1->data[0].data, wb_r1->data[1].data, wb_r1->data[2].data)\n'
                                '__CPROVER_loop_invariant(wb_i1 <= wb_r1->n && wb_r1 == &this_->mid_oceanic_ridges)\n__CPROVER_decreases(wb_r1->n - wb_i1)'),
        (_fn, 2): dict(contract='__CPROVER_assigns(wb_i2, wb_r2->data)\n'
                                '__CPROVER_loop_invariant(wb_i2 <= wb_r2->n && wb_r2 == ridge_coordinates)\n__CPROVER_decreases(wb_r2->n - wb_i2)'),
        (_fn, 3): dict(contract='__CPROVER_assigns(wb_i3, n_ridge_points)\n'
                                '__CPROVER_loop_invariant(wb_i3 <= wb_r3->n && wb_r3 == &this_->mid_oceanic_ridges && n_ridge_points == PRE(wb_i3))\n'
                                '__CPROVER_decreases(wb_r3->n - wb_i3)'),
        (_fn, 4): dict(pre='\n#undef UPTO\n#define UPTO wb_i4\n',
                       contract='__CPROVER_assigns(wb_i4, ridge_point_index, this_->ridge_spreading_velocities_at_each_ridge_point, wb_thrown)\n'
                                '__CPROVER_loop_invariant(wb_i4 <= wb_r4->n && wb_r4 == &this_->mid_oceanic_ridges && SV.n == wb_i4 && (size_t)ridge_point_index == PRE(wb_i4))\n'
                                '__CPROVER_loop_invariant(SVOK(0) && SVOK(1) && SVOK(2))\n'
                                '__CPROVER_decreases(wb_r4->n - wb_i4)'),
        (_fn, 5): dict(contract='__CPROVER_assigns(index_y, ridge_point_index, ridge_spreading_velocities_for_ridge)\n'
                                '__CPROVER_loop_invariant((unsigned long)index_y <= mid_oceanic_ridge->n && ridge_spreading_velocities_for_ridge.n == (size_t)index_y && (size_t)ridge_point_index == PRE(wb_i4) + (size_t)index_y)\n'
                                '__CPROVER_decreases(mid_oceanic_ridge->n - (unsigned long)index_y)'),
        (_fn, 6): dict(contract='__CPROVER_assigns(ridge_index, wb_thrown)\n'
                                '__CPROVER_loop_invariant((unsigned long)ridge_index <= this_->mid_oceanic_ridges.n && !wb_thrown)\n'
                                '__CPROVER_decreases(this_->mid_oceanic_ridges.n - (unsigned long)ridge_index)'),
        (_fn, 7): dict(contract='__CPROVER_assigns(point_index, wb_thrown)\n'
                                '__CPROVER_loop_invariant((unsigned long)point_index <= this_->mid_oceanic_ridges.data[ridge_index].n && !wb_thrown)\n'
                                '__CPROVER_decreases(this_->mid_oceanic_ridges.data[ridge_index].n - (unsigned long)point_index)')}))

SPH = '{"version":"1.1", "coordinate system":{"model":"spherical", "depth method":"%s"}, "features":[]}'


PLUME = dict(model="plume", name="P", **{"min depth": 1e3, "max depth": 150e3, "coordinates": [[50e3, 50e3], [50e3, 50e3], [50e3, 50e3]],
             "cross section depths": [40e3, 75e3, 150e3], "semi-major axis": [50e3, 35e3, 40e3], "eccentricity": [0.5, 0.5, 0.5],
             "rotation angles": [345, 355, 5], "composition models": [{"model": "uniform", "compositions": [0]}]})


def plume_world(**over):
    f = dict(PLUME)
    f.update(over)
    return json.dumps({"version": "1.1", "features": [f]})


def oracle_depth_method(work):
    """every schema-valid depth method either builds a world or throws; it never leaves the world with an undefined method"""
    import oracle
    for opt in ['starting point', 'begin segment', 'begin at end segment', 'continuous']:
        q = oracle.Q(SPH % opt, work, name='dm')
        try:
            if opt == 'continuous' and not q.construct_error:
                return dict(status='violated', detail='"depth method":"continuous" is accepted without an exception although no implementation exists: the world is built with an uninitialised depth method')
            if opt != 'continuous' and q.construct_error:
                return dict(status='violated', detail='valid depth method %r rejected: %s' % (opt, q.construct_error))
        finally:
            q.close()
    return dict(status='holds', detail='three supported depth methods build, "continuous" is rejected by an exception')


def oracle_plume_lists(work):
    """a plume whose per-cross-section lists do not have one entry per coordinate is refused by an exception"""
    import oracle
    q = oracle.Q(plume_world(), work, name='plume_ok')
    try:
        if q.construct_error:
            return dict(status='error', detail='consistent plume rejected: %s' % q.construct_error)
    finally:
        q.close()
    for key in ['cross section depths', 'semi-major axis', 'eccentricity', 'rotation angles']:
        for short in ([PLUME[key][0]], PLUME[key][:2], PLUME[key] + [PLUME[key][-1] * 1.5]):
            q = oracle.Q(plume_world(**{key: short}), work, name='plume_bad')
            try:
                if not q.construct_error:
                    return dict(status='violated', input={'feature': dict(PLUME, **{key: short})},
                                detail='plume with 3 coordinates and %d entries in "%s" is accepted without an exception (Plume::properties indexes this list by cross section: out-of-bounds read)' % (len(short), key))
            finally:
                q.close()
    return dict(status='holds', detail='plumes with 1, 2 or 4 entries in any per-cross-section list (3 coordinates) are rejected by an exception')


def oracle_gaussian_lists(work):
    """a gaussian plume temperature model whose three per-depth lists differ in length is refused by an exception"""
    import oracle
    G = {"model": "gaussian", "centerline temperatures": [200, 300, 400], "gaussian sigmas": [0.3, 0.3, 0.3], "depths": [40e3, 60e3, 150e3]}
    q = oracle.Q(plume_world(**{"temperature models": [G]}), work, name='gauss_ok')
    try:
        if q.construct_error:
            return dict(status='error', detail='consistent gaussian model rejected: %s' % q.construct_error)
    finally:
        q.close()
    for key in ['centerline temperatures', 'gaussian sigmas', 'depths']:
        for short in (G[key][:1], G[key][:2], G[key] + [G[key][-1]]):
            q = oracle.Q(plume_world(**{"temperature models": [dict(G, **{key: short})]}), work, name='gauss_bad')
            try:
                if not q.construct_error:
                    return dict(status='violated', input={'temperature model': dict(G, **{key: short})},
                                detail='gaussian plume temperature model with %d entries in "%s" and 3 in the other two lists is accepted without an exception (get_temperature indexes all three lists by the position in "depths": out-of-bounds read)' % (len(short), key))
            finally:
                q.close()
    return dict(status='holds', detail='gaussian models with 1, 2 or 4 entries in one of the three lists are rejected by an exception')


def oracle_ridge_tables(work, model='half space model'):
    """an oceanic plate temperature model whose spreading-velocity table has several values but not one per ridge point is refused"""
    import oracle

    def world(sv, ridges):
        return json.dumps({"version": "1.1", "features": [
            {"model": "oceanic plate", "name": "O", "max depth": 100e3, "coordinates": [[0, 0], [1000e3, 0], [1000e3, 1000e3], [0, 1000e3]],
             "temperature models": [{"model": model, "min depth": 0, "max depth": 100e3, "top temperature": 300, "bottom temperature": 1600,
                                     "spreading velocity": sv, "ridge coordinates": ridges}]}]})
    r3 = [[[100e3, -1e3], [100e3, 500e3], [100e3, 1001e3]]]
    r22 = [[[100e3, -1e3], [100e3, 500e3]], [[200e3, 500e3], [200e3, 1001e3]]]
    for sv, ridges in [(0.05, r3), ([[0, [[0.01, 0.02, 0.03]]]], r3), ([[0, [[0.01, 0.02], [0.03, 0.04]]]], r22)]:
        q = oracle.Q(world(sv, ridges), work, name='ridge_ok')
        try:
            if q.construct_error:
                return dict(status='error', detail='consistent %s rejected: %s' % (model, q.construct_error))
        finally:
            q.close()
    for sv, ridges, what in [([[0, [[0.01, 0.02]]]], r3, '2 spreading velocities for a ridge of 3 points'),
                             ([[0, [[0.01, 0.02], [0.03]]]], r22, '3 spreading velocities for 2 ridges of 2 points')]:
        q = oracle.Q(world(sv, ridges), work, name='ridge_bad')
        try:
            if not q.construct_error:
                return dict(status='violated', input={'model': model, 'spreading velocity': sv, 'ridge coordinates': ridges},
                            detail='%s with %s is accepted without an exception (parse_entries indexes the value list by ridge point: out-of-bounds read)' % (model, what))
        finally:
            q.close()
    return dict(status='holds', detail='%s: spreading-velocity tables that do not match the ridge points are rejected by an exception' % model)


def oracle_mass_conserving(work):
    """mass conserving slab temperature: a spreading-velocity table with several values but fewer than ridge points is refused"""
    import oracle
    base = json.load(open(os.path.join(os.environ.get('GWB_REPO', '/repo'), 'tests/gwb-dat/mass_conserving_slab_with_variable_spreading.wb')))

    def world(sv, ridges):
        d = json.loads(json.dumps(base))
        for f in d['features']:
            if f['model'] == 'subducting plate':
                for m_ in f['temperature models']:
                    if m_['model'] == 'mass conserving':
                        m_['spreading velocity'] = sv
                        m_['ridge coordinates'] = ridges
                        m_['subducting velocity'] = 0.05
        return json.dumps(d)
    r3 = [[[0, -1000.0], [0, 0.0], [0, 1000.0]]]
    q = oracle.Q(world([[1, [[0.01, 0.02, 0.05]]]], r3), work, name='mc_ok')
    try:
        if q.construct_error:
            return dict(status='error', detail='consistent mass conserving model rejected: %s' % q.construct_error)
    finally:
        q.close()
    q = oracle.Q(world([[1, [[0.01, 0.05]]]], r3), work, name='mc_bad')
    try:
        if not q.construct_error:
            return dict(status='violated', input={'spreading velocity': [[1, [[0.01, 0.05]]]], 'ridge coordinates': r3},
                        detail='mass conserving model with 2 spreading velocities for a ridge of 3 points is accepted without an exception (parse_entries indexes the value list by ridge point: out-of-bounds read)')
    finally:
        q.close()
    return dict(status='holds', detail='mass conserving: a spreading-velocity table that does not match the ridge points is rejected by an exception')


def native_oracle(witness, work, search_seed=None):
    subs = dict(mass_conserving_parse=oracle_mass_conserving, spherical_parse=oracle_depth_method, plume_parse=oracle_plume_lists, gaussian_parse=oracle_gaussian_lists,
                half_space_model_parse=lambda w: oracle_ridge_tables(w, 'half space model'), plate_model_parse=lambda w: oracle_ridge_tables(w, 'plate model'))
    order = [witness['unit']] if witness.get('unit') in subs else list(subs)
    details = []
    for u in order:
        r = subs[u](work)
        if r['status'] != 'holds':
            return r
        details.append(r['detail'])
    return dict(status='holds', detail='; '.join(details))


def witness_from_trace(unit, failure, seed):
    return dict(unit=unit['name'])
