import os, sys, json
sys.path.insert(0, os.path.join(os.path.dirname(os.path.abspath(__file__)), '..', 'lib'))
META = dict(
    title='Malformed or inconsistent input is rejected by an exception, never by a crash',
    technique='CBMC code contracts (DFCC) on mechanically extracted parse_entries functions: Parameters::get* are contract stubs answering arbitrary schema-valid values; postcondition "exception pending or representation invariant established"',
    level_text='Partial. Proof for every option string the parameter file may contain: Spherical::parse_entries either raises an exception or '
               'sets the depth-method enum to the enumerator of the recognised option - no value leaves the field uninitialised.',
    level_note='Trusted: translator, shims (std::string = handle determined by content for literals, arbitrary for file values), CBMC. Bytes -> JSON -> '
               'schema validation (rapidjson, Parameters::initialize) and every other parse_entries function are not under contract.',
    scope='CoordinateSystems::Spherical::parse_entries',
    not_covered=['JSON parsing and schema validation', 'length consistency of list-valued parameters (plume, gaussian, plate model tables: candidates of DESIGN 7.1, not re-found by the machinery)',
                 'formatting/comment/key-order independence', 'uninitialised reads other than this enum field'],
    enforced_elsewhere={},
)
UNITS = [
    dict(name='spherical_parse', enforce='Spherical_parse_entries', contracts='c12_parse.c', harness='h_spherical_parse',
         targets=[dict(tu='source/world_builder/coordinate_systems/spherical.cc', qual='WorldBuilder::CoordinateSystems::Spherical::parse_entries', cname='Spherical_parse_entries')],
         aliases={'WorldBuilder::Parameters::get|std::basic_string<char> (const std::string &)': 'Parameters_get_string',
                  'WorldBuilder::Parameters::get|double (const std::string &)': 'Parameters_get_double'},
         stub_prefixes=['Parameters_'],
         replace=['Parameters_enter_subsection', 'Parameters_leave_subsection', 'Parameters_get_string', 'Parameters_get_double'],
         defines={'WB_VEC_CAP': 2}, expect_fail=['REACHABILITY-GUARD']),
]

SPH = '{"version":"1.1", "coordinate system":{"model":"spherical", "depth method":"%s"}, "features":[]}'


def native_oracle(witness, work, search_seed=None):
    """every schema-valid depth method either builds a world or throws; it never leaves the world with an undefined method"""
    import oracle
    for opt in ['starting point', 'begin segment', 'begin at end segment', 'continuous']:
        q = oracle.Q(SPH % opt, work, name='dm')
        try:
            if opt == 'continuous' and not q.construct_error:
                return dict(status='violated', detail='"depth method":"continuous" is accepted without an exception although no implementation exists: the world is built with an uninitialised depth method')
            if opt != 'continuous' and q.construct_error:
                return dict(status='violated', detail='valid depth method %r rejected: %s' % (opt, q.construct_error))
        finally:
            q.close()
    return dict(status='holds', detail='three supported depth methods build, "continuous" is rejected by an exception')


def witness_from_trace(unit, failure, seed):
    return {}
