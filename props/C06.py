import os, sys, json, math, random
sys.path.insert(0, os.path.join(os.path.dirname(os.path.abspath(__file__)), '..', 'lib'))
META = dict(
    disabled='contract for SubductingPlate::properties written (contracts/c06_slab.c: membership iff predicate, interpolation from the two adjacent sections, sound pre-tests) and the function is translated mechanically, but the DFCC query (11 loops, 580 lines of generated C) does not finish within 900 s on cadical/minisat even at the smallest bounds; the geometry itself (distance_point_from_curved_planes) is outside what contracts can express - not claimed',
    title='Slab and fault geometry equals the elementary construction for straight trenches',
    technique='CBMC code contracts (DFCC) on the mechanically extracted SubductingPlate::properties: the distance function is a contract stub (any distances), membership predicate and interpolated bounds compared structurally',
    level_text='Partial. Proof for all inputs (requests of tag entries): given the two distances, section, segment and fractions answered by '
               'distance_point_from_curved_planes, the slab writes its tag iff top truncation <= from <= thickness, 0 <= along <= total length '
               '(thickness/truncation/length interpolated between the two adjacent sections only) and min depth <= depth <= max depth; the distance '
               'function is called with start radius = depth coordinate + depth - min depth.',
    level_note='NOT covered, stated plainly: that distance_point_from_curved_planes (650 lines of trigonometry over the Bezier foot point) equals the planar '
               'line/arc construction - no contract within CBMC\'s reach expresses or decides it; it is an unverified callee with an assumed interface '
               'contract (indices in range). Changes inside that function are not detected by this check. Fault::properties is not yet under contract.',
    scope='SubductingPlate::properties (membership predicate, bounds interpolation, arguments of the distance call)',
    not_covered=['distance_point_from_curved_planes (the geometry itself)', 'Fault::properties, *::distance_to_feature_plane, World::distance_to_plane',
                 'temperature/composition/grains/velocity interpolation between sections (requests are restricted to tag entries)'],
    enforced_elsewhere={},
)
FN = 'Features_SubductingPlate_properties'
STUBS = ['Utilities_distance_point_from_curved_planes', 'Objects_NaturalCoordinate_get_surface_coordinates', 'Objects_NaturalCoordinate_get_depth_coordinate',
         'grains_ctor', 'grains_unroll_into', 'BoundingBox2_point_inside']
TRIV = dict(contract='__CPROVER_loop_invariant(1)')
UNITS = [
    dict(name='slab_membership', enforce=FN, contracts='c06_slab.c', harness='h_slab',
         targets=[dict(tu='source/world_builder/features/subducting_plate.cc', qual='WorldBuilder::Features::SubductingPlate::properties')],
         aliases={'WorldBuilder::grains::grains|const std::vector<double> &': 'grains_ctor'},
         stub=STUBS, nothrow=['Objects_NaturalCoordinate_get_surface_coordinates', 'Objects_NaturalCoordinate_get_depth_coordinate', 'BoundingBox2_point_inside', 'grains_ctor', 'grains_unroll_into'],
         replace=['Utilities_distance_point_from_curved_planes', 'Objects_NaturalCoordinate_get_surface_coordinates', 'Objects_NaturalCoordinate_get_depth_coordinate',
                  'BoundingBox2_point_inside', 'CoordinateSystems_Interface_natural_coordinate_system'],
         outline_fp=True, defines={'MAXP': 1, 'WB_VEC_CAP': 2, 'WB_CAP_vec_arr_uint_3': 1, 'WB_CAP_vec_ulong': 1, 'WB_CAP_vec_double': 2, 'WB_CAP_vec_arr_arr_double_3_3': 1},
         expect_fail=['REACHABILITY-GUARD'], timeout=900, spurious_if_oracle_holds=False,
         loops=dict([((FN, 1), dict(
             contract='__CPROVER_assigns(i_property, *output, wb_thrown)\n'
                      '__CPROVER_loop_invariant(i_property <= properties->n && !wb_thrown && output->n == g_total)\n'
                      '__CPROVER_loop_invariant((IN_BLK && i_property <= g_blk) ==> SAMEL(output->data[wb_g_slot], g_before))\n'
                      '__CPROVER_loop_invariant((IN_BLK && i_property > g_blk) ==> output->data[wb_g_slot] == (double)this_->base_.tag_index)\n'
                      '__CPROVER_decreases(properties->n - i_property)'))] + [((FN, k), TRIV) for k in range(2, 12)])),
]
