import os, sys, copy, importlib.util, math, random
HERE = os.path.dirname(os.path.abspath(__file__))
sys.path.insert(0, os.path.join(HERE, '..', 'lib'))
_spec = importlib.util.spec_from_file_location('c01', os.path.join(HERE, 'C01.py'))
C01 = importlib.util.module_from_spec(_spec)
_spec.loader.exec_module(C01)

META = dict(
    title='The 2D cross-section interface equals the 3D interface along the section',
    technique='CBMC code contracts (DFCC) on the mechanically extracted 2D entry point; the 3D evaluator and the coordinate-system virtuals are contract stubs that check the forwarded arguments, and the stub contracts of the virtuals are enforced on both concrete coordinate systems; mapping formulas compared structurally (uninterpreted sqrt/atan2)',
    level_text='Proof for all arguments: a 2D query on a world without cross section is refused by an exception; otherwise the 3D '
               'interface is evaluated exactly once, with the same depth and request, at natural_to_cartesian of (o + x*u, z) (Cartesian) or '
               '(sqrt(x*x+z*z), o + atan2(z,x)*u) (spherical), and its answer is returned slot for slot with every velocity block replaced by '
               '(u.(vx,vy), vz, 0). The coordinate-system virtuals used on the way are proved on both implementations: Cartesian reports cartesian and '
               'natural_to_cartesian / cartesian_to_natural return their argument bit for bit (so "height z" is the third coordinate unchanged); Spherical reports '
               'spherical and forwards the argument once to Utilities::spherical_to_cartesian_coordinates / cartesian_to_spherical_coordinates (labelled cartesian) and returns that answer slot for slot.',
    level_note='Trusted: translator, shims, CBMC; o and u are the stored first cross-section point and direction; World::parse_entries is under contract for: '
               'dim = 2 exactly when a cross section is declared, exactly two points (else exception), points scaled by pi/180 in spherical worlds, '
               'u = (c0-c1)*(-1/sqrt(|c0-c1|^2)) as an expression tree (that this has unit length is a real-number fact not decided here). '
               'The velocity projection is applied in spherical worlds as well, as the code does; the statement only speaks about Cartesian ones.',
    scope='World::properties(array<double,2>, depth, properties); World::parse_entries (cross section, dim); CoordinateSystems::Cartesian / Spherical :: natural_coordinate_system, natural_to_cartesian_coordinates, cartesian_to_natural_coordinates',
    not_covered=['unit length of the direction as a real-number fact', 'the conversion formulas inside Utilities::spherical_to_cartesian_coordinates / cartesian_to_spherical_coordinates (under contract in C19)', 'virtual dispatch itself (which implementation the unique_ptr holds) is C++ semantics, trusted'],
    enforced_elsewhere={'World_properties_3d': 'C01/props3d', 'Utilities_spherical_to_cartesian_coordinates': 'C19/spherical_to_cartesian', 'Utilities_cartesian_to_spherical_coordinates': 'C19/cartesian_to_spherical'},
)
_u = copy.deepcopy([u for u in C01.UNITS if u['name'] == 'props2d'][0])
_u['name'] = 'props2d_section'
_u['canaries'] = [
    (r'E_add_a_mul_a_a\(this_->cross_section\.data\[wb_idx\(\(\(unsigned long\)0\), this_->cross_section\.n\)\]\.point\.e\[\(\(\(unsigned long\)1\)\)\]',
     'E_add_a_mul_a_a(this_->cross_section.data[wb_idx(((unsigned long)0), this_->cross_section.n)].point.e[(((unsigned long)0))]', 'second coordinate starts from the first component of the section origin'),
    (r'= \(\(double\)0\);\n\s*counter \+= \(\(unsigned int\)3\)', '= ((double)1);\n              counter += ((unsigned int)3)', 'third velocity slot set to 1 instead of 0'),
]
# World::parse_entries (constants wiring / cross-section direction): shared contract file, unit defined in C15.py
_spec15 = importlib.util.spec_from_file_location('c15', os.path.join(HERE, 'C15.py'))
C15 = importlib.util.module_from_spec(_spec15)
_spec15.loader.exec_module(C15)
_wp = copy.deepcopy(C15.WORLD_PARSE)
_wp['name'] = 'world_parse_section'

UNITS = [_u, _wp]

# the coordinate-system virtuals the 2D entry point calls (stubs in c01_2d.c) enforced on every concrete implementation
def _cs(name, cls, meth, stub=None, canaries=None):
    fn = 'CoordinateSystems_%s_%s' % (cls, meth)
    u = dict(name=name, enforce=fn, contracts='c09_coordsys.c', harness='h_' + name,
             targets=[dict(tu='source/world_builder/coordinate_systems/%s.cc' % cls.lower(),
                           qual='WorldBuilder::CoordinateSystems::%s::%s' % (cls, meth))],
             outline_fp=True, unwind_complete=4, defines={'WB_VEC_CAP': 2}, expect_fail=['REACHABILITY-GUARD'])
    if stub:
        u.update(stub=[stub], nothrow=[stub], replace=[stub])
    if canaries:
        u['canaries'] = canaries
    return u
UNITS += [
    _cs('cartesian_kind', 'Cartesian', 'natural_coordinate_system', canaries=[(r'return E_CoordinateSystem_cartesian;', 'return E_CoordinateSystem_spherical;', 'Cartesian system reports spherical')]),
    _cs('spherical_kind', 'Spherical', 'natural_coordinate_system'),
    _cs('cartesian_n2c', 'Cartesian', 'natural_to_cartesian_coordinates'),
    _cs('cartesian_c2n', 'Cartesian', 'cartesian_to_natural_coordinates'),
    _cs('spherical_n2c', 'Spherical', 'natural_to_cartesian_coordinates', 'Utilities_spherical_to_cartesian_coordinates'),
    _cs('spherical_c2n', 'Spherical', 'cartesian_to_natural_coordinates', 'Utilities_cartesian_to_spherical_coordinates',
        canaries=[(r'\(position, E_CoordinateSystem_cartesian\)', '(position, E_CoordinateSystem_spherical)', 'point handed to the conversion labelled spherical')]),
]

WORLD = C01.WORLD


def native_oracle(witness, work, search_seed=None):
    """2D query at (x, z) == 3D query at o + x*u (Cartesian), velocity projected; refusal without cross section."""
    import oracle
    q = oracle.Q(WORLD % dict(extra=''), work)
    q3 = oracle.Q((WORLD % dict(extra='')).replace('"cross section":[[0,0],[100e3,50e3]],', ''), work, name='nosection')
    try:
        if q.construct_error or q3.construct_error:
            return dict(status='error', detail=str(q.construct_error or q3.construct_error))
        st, v = q3.ask('p2 1000 990000 10000 1,0,0')
        if st != 'EXC':
            return dict(status='violated', detail='2D query on a world without cross section was answered (%s %s) instead of refused' % (st, v))
        rnd = random.Random(search_seed or 1)
        ux, uy = 100e3 / math.hypot(100e3, 50e3), 50e3 / math.hypot(100e3, 50e3)
        reqs = [[[1, 0, 0], [5, 0, 0], [2, 1, 0]], [[3, 0, 2], [5, 0, 0]], [[5, 0, 0], [4, 0, 0], [3, 1, 1]]]
        for i in range(30):
            x = rnd.uniform(-200e3, 200e3)
            d = rnd.choice([0.0, 10e3, 100e3, 300e3])
            z = 1000e3 - d
            r = reqs[i % len(reqs)]
            s2, a2 = q.ask('p2 %r %r %r %s' % (x, z, d, oracle.props_arg(r)))
            s3, a3 = q.ask('p3 %r %r %r %r %s' % (0 + x * ux, 0 + x * uy, z, d, oracle.props_arg(r)))
            if s2 != 'OK' or s3 != 'OK':
                continue
            f2 = [float.fromhex(t) for t in a2]
            f3 = [float.fromhex(t) for t in a3]
            off = 0
            for p in r:
                w = C01.width(p)
                if p[0] == 5:
                    exp = [ux * f3[off] + uy * f3[off + 1], f3[off + 2], 0.0]
                    if any(abs(a - b) > 1e-9 * max(1, abs(b)) for a, b in zip(f2[off:off + 3], exp)):
                        return dict(status='violated', request=r, detail='2D velocity block %s at x=%r depth=%r, expected (u.v, vz, 0) = %s from the 3D answer %s' % (f2[off:off + 3], x, d, exp, f3[off:off + 3]))
                elif f2[off:off + w] != f3[off:off + w] and not all(a != a and b != b for a, b in zip(f2[off:off + w], f3[off:off + w])):
                    return dict(status='violated', request=r, detail='2D block %s differs from 3D block %s for entry %s at x=%r depth=%r' % (f2[off:off + w], f3[off:off + w], p, x, d))
                off += w
        res = spherical_check(work, rnd)
        if res is not None:
            return res
        return dict(status='holds', detail='30 random Cartesian and 30 spherical 2D/3D query pairs agree; world without cross section refuses 2D queries')
    finally:
        q.close()
        q3.close()


SPH = '''{"version":"1.1", "cross section":[[20,10],[50,40]], "coordinate system":{"model":"spherical", "depth method":"starting point"},
  "features":[{"model":"continental plate", "name":"A", "max depth":300e3, "coordinates":[[0,0],[60,0],[60,25],[0,25]],
     "temperature models":[{"model":"linear", "max depth":300e3, "top temperature":300, "bottom temperature":1500}],
     "composition models":[{"model":"uniform", "compositions":[0]}]},
   {"model":"oceanic plate", "name":"B", "max depth":200e3, "coordinates":[[0,25],[60,25],[60,60],[0,60]],
     "temperature models":[{"model":"uniform", "temperature":777}], "composition models":[{"model":"uniform", "compositions":[1]}]}]}'''


def spherical_check(work, rnd):
    """spherical worlds: 2D query (x,z) == 3D query at radius sqrt(x^2+z^2), (lon,lat) = first section point + atan2(z,x) * unit direction"""
    import oracle
    q = oracle.Q(SPH, work, name='sph')
    try:
        if q.construct_error:
            return dict(status='error', detail=q.construct_error)
        R = 6371000.0
        o = (math.radians(20), math.radians(10))
        dvec = (math.radians(50) - o[0], math.radians(40) - o[1])
        nrm = math.hypot(*dvec)
        u = (dvec[0] / nrm, dvec[1] / nrm)
        for i in range(30):
            ang = rnd.uniform(0.0, 0.6)
            d = rnd.choice([0.0, 50e3, 150e3, 250e3])
            r = R - d
            x, z = r * math.cos(ang), r * math.sin(ang)
            lon, lat = o[0] + ang * u[0], o[1] + ang * u[1]
            c = (r * math.cos(lat) * math.cos(lon), r * math.cos(lat) * math.sin(lon), r * math.sin(lat))
            s2, a2 = q.ask('p2 %r %r %r 1,0,0 2,0,0 2,1,0 4,0,0' % (x, z, d))
            s3, a3 = q.ask('p3 %r %r %r %r 1,0,0 2,0,0 2,1,0 4,0,0' % (c[0], c[1], c[2], d))
            if s2 != 'OK' or s3 != 'OK':
                continue
            f2 = [float.fromhex(t) for t in a2]
            f3 = [float.fromhex(t) for t in a3]
            if any(abs(a - b) > 1e-6 * max(1.0, abs(b)) for a, b in zip(f2, f3)):
                return dict(status='violated', detail='spherical world, cross section [[20,10],[50,40]] deg: the 2D query at angle %.4f rad, depth %r returns %s, the 3D query at (lon,lat)=(%.4f,%.4f) deg returns %s'
                                                      % (ang, d, f2, math.degrees(lon), math.degrees(lat), f3))
        return None
    finally:
        q.close()


def witness_from_trace(unit, failure, seed):
    return {}
