import os, sys, random, math, json
sys.path.insert(0, os.path.join(os.path.dirname(os.path.abspath(__file__)), '..', 'lib'))
META = dict(
    title='Area features and plumes occupy exactly their declared footprint and depth range',
    technique='CBMC code contracts (DFCC): ghost closed-winding-number definition run in lock step with the mechanically extracted polygon kernel (loop invariant), orientation/dot/length expressions compared structurally; extent guards of the area features as "writes iff covers" (shared with C02)',
    level_text='Proof for all inputs: an area feature writes into the answer iff min depth <= depth <= max depth (global value and local depth '
               'surface, closed intervals) and the polygon test on its coordinates answers true for the surface position (same unit as C02); the '
               'polygon wrapper asks the kernel for the point and, in spherical worlds only, for the point shifted by 2 pi towards the other side of '
               'zero longitude, and answers the disjunction; the Point<2> difference / dot product / squared norm used by the kernel compute their '
               'definitions. A plume (<= 3 cross sections, depths ascending) writes iff min depth <= depth <= max depth and the normalised distance is <= 1, '
               'where the distance is the ellipse test called with centre, semi-major axis and eccentricity interpolated linearly between the two bracketing '
               'cross sections (the deepest one below it), the rotation angle through interpolate_angle_across_zero at the same fraction, and above the '
               'shallowest cross section the half-ellipsoid x^2/a^2+y^2/b^2+z^2/c^2 of the first cross section; the ellipse test computes '
               '(x\'/a)^2+(y\'/b)^2 and reports > 1 for an ellipse without area. The surface position the tests are made on: NaturalCoordinate(position, cs) stores '
               'cs.natural_coordinate_system() and cs.cartesian_to_natural_coordinates(position) unchanged (implementations: C09), and its surface point / '
               'surface coordinates are (c0, c1) in Cartesian and (c1, c2) = (longitude, latitude) in spherical worlds, any other system being refused by an exception.',
    level_note='Trusted: translator, shims, CBMC; the winding-number theorem (non-zero exactly inside a simple polygon) and that the '
               'floating-point orientation test has the sign of the exact one are mathematics outside the proof; Point<2> operators are separate units.',
    scope='Utilities::polygon_contains_point (alias wrapper), Utilities::interpolate_angle_across_zero (plume rotation angle), Utilities::fraction_from_ellipse_center (plume ellipse test), Plume::properties (cross-section interpolation, half-ellipsoid tip, writes iff covers), Point<2> operator-/dot/norm_square; Objects::NaturalCoordinate (constructor from array, get_surface_point, get_surface_coordinates); extent guard of ContinentalPlate/OceanicPlate/MantleLayer::properties (the C02 contract, run here as well)',
    not_covered=['the winding-number kernel polygon_contains_point_implementation itself (contract and ghost definition are written - unit polygon_impl - but the proof does not finish in the time budget; it is not counted)', 'the semi-major axis used for the ellipse test above the shallowest cross section (half-ellipsoid taper inside the tip branch of Plume::properties)', 'sign-exactness of the floating-point orientation predicate'],
    enforced_elsewhere={'Point2_op_sub': 'C04/point2_sub', 'Point2_dot': 'C04/point2_dot', 'Point2_norm_square': 'C04/point2_norm_square',
                        'Utilities_polygon_contains_point_implementation': 'C04/polygon_impl'},
)
UT = 'source/world_builder/utilities.cc'
PT = 'source/world_builder/point.cc'
ALIASES = {'WorldBuilder::Point<2>::operator*|double (const Point<2': 'Point2_dot'}
DEF = {'MAXP': 8, 'WB_VEC_CAP': 8}
DEFT = {'MAXP': 32, 'WB_VEC_CAP': 32}
FN = 'Utilities_polygon_contains_point_implementation'
GHOST = '''{
  double v0x = point_list->data[j].point.e[0], v0y = point_list->data[j].point.e[1], v1x = point_list->data[i].point.e[0], v1y = point_list->data[i].point.e[1];
  double px = point->point.e[0], py = point->point.e[1];
  double il = FPX((v1x - v0x) * (py - v0y) - (px - v0x) * (v1y - v0y));
  double d0x = FPXA(px - v0x), d0y = FPXA(py - v0y), e0x = FPXA(v1x - v0x), e0y = FPXA(v1y - v0y);
  double dotv = DOT2(d0x, d0y, e0x, e0y);
  double sq = SQ2(e0x, e0y);
  _Bool up = v0y <= py && v1y > py, down = v0y > py && v1y <= py;
  _Bool vhit = v0y <= py && Utilities_approx(v1x, px, 1e4) && Utilities_approx(v1y, py, 1e4);
  _Bool touches = (v0y <= py && v1y >= py) || (v0y > py && v1y <= py);
  _Bool onseg = fabs(il) < DBL_EPSILON && dotv >= 0.0 && dotv <= sq;
  if (vhit) g_on = 1; else if (up && il > 0.0) g_up++; else if (down && il < 0.0) g_down++; else if (touches && onseg) g_on = 1;
}'''
UNITS_ALL = [
    dict(name='point2_sub', enforce='Point2_op_sub', contracts='c04_polygon.c', harness='h_point2_sub',
         targets=[dict(tu=PT, qual='WorldBuilder::Point<2>::operator-', sig='Point<2U> (const Point<2U> &) const', cname='Point2_op_sub')],
         aliases=ALIASES, outline_fp='all', unwind_complete=3, defines=dict(DEF), expect_fail=['REACHABILITY-GUARD']),
    dict(name='point2_dot', enforce='Point2_dot', contracts='c04_polygon.c', harness='h_point2_dot',
         targets=[dict(tu=PT, qual='WorldBuilder::Point<2>::operator*', sig='double (const Point<2', cname='Point2_dot')],
         aliases=ALIASES, outline_fp='all', unwind_complete=3, defines=dict(DEF), expect_fail=['REACHABILITY-GUARD']),
    dict(name='point2_norm_square', enforce='Point2_norm_square', contracts='c04_polygon.c', harness='h_point2_norm_square',
         targets=[dict(tu=PT, qual='WorldBuilder::Point<2>::norm_square')],
         aliases=ALIASES, outline_fp='all', defines=dict(DEF), expect_fail=['REACHABILITY-GUARD']),
    dict(name='polygon_impl', enforce=FN, experimental='closed winding-number proof of the kernel: written, canaries fail as expected, but the UNSAT proof does not finish within 600 s on cadical/minisat at 4 vertices (2.1M variables); not part of the claimed check', contracts='c04_polygon.c', harness='h_polygon_impl',
         targets=[dict(tu=UT, qual='WorldBuilder::Utilities::polygon_contains_point_implementation')],
         aliases=ALIASES, stub=['Point2_op_sub', 'Point2_dot', 'Point2_norm_square'], nothrow=['Point2_op_sub', 'Point2_dot', 'Point2_norm_square'],
         replace=['Point2_op_sub', 'Point2_dot', 'Point2_norm_square'],
         outline_fp='all', defines=dict(DEF), defines_thorough=dict(DEFT), expect_fail=['REACHABILITY-GUARD'], timeout=900,
         canaries=[(r'>= \(\*Point2_op_index__unsignedlong_c\(point, \(\(unsigned long\)1\)\)\)\)\)\n\s*\{\n\s*double is_left', '> (*Point2_op_index__unsignedlong_c(point, ((unsigned long)1)))))\n          {\n            double is_left', 'upward edge test >= weakened to >'),
                   (r'if \(\(is_left < \(\(double\)0\)\)\)', 'if ((is_left <= ((double)0)))', 'downward crossing counts points on the edge line')],
         loops={(FN, 1): dict(
             begin=GHOST,
             contract='__CPROVER_assigns(i, j, wn, g_on, g_up, g_down)\n'
                      '__CPROVER_loop_invariant(i <= pointNo && pointNo == point_list->n && j == (i == 0 ? pointNo - 1 : i - 1))\n'
                      '__CPROVER_loop_invariant(g_on == 0 && wn == g_up - g_down && g_up <= i && g_down <= i)\n'
                      '__CPROVER_decreases(pointNo - i)')}),
    dict(name='angle_across_zero', enforce='Utilities_interpolate_angle_across_zero', contracts='c04_polygon.c', harness='h_angle_across_zero',
         targets=[dict(tu=UT, qual='WorldBuilder::Utilities::interpolate_angle_across_zero')],
         outline_fp='all', defines=dict(DEF), expect_fail=['REACHABILITY-GUARD'], spurious_if_oracle_holds=True),
    dict(name='ellipse_fraction', enforce='Utilities_fraction_from_ellipse_center', contracts='c04_polygon.c', harness='h_ellipse_fraction',
         targets=[dict(tu=UT, qual='WorldBuilder::Utilities::fraction_from_ellipse_center')],
         outline_fp='all', defines=dict(DEF), expect_fail=['REACHABILITY-GUARD']),
    dict(name='polygon_wrapper', enforce='Utilities_polygon_contains_point', contracts='c04_polygon.c', harness='h_polygon_wrapper',
         targets=[dict(tu=UT, qual='WorldBuilder::Utilities::polygon_contains_point')],
         aliases=ALIASES, stub=[FN], nothrow=[FN], replace=[FN], outline_fp='all', defines=dict(DEF), expect_fail=['REACHABILITY-GUARD']),
]

NC = 'source/world_builder/objects/natural_coordinate.cc'
_CSI = ['CoordinateSystems_Interface_natural_coordinate_system', 'CoordinateSystems_Interface_cartesian_to_natural_coordinates']
UNITS_ALL += [
    dict(name='natural_ctor', enforce='NATURAL_CTOR', contracts='c04_natural.c', harness='h_natural_ctor',
         targets=[dict(tu=NC, qual='WorldBuilder::Objects::NaturalCoordinate::NaturalCoordinate', sig='const std::array<double, 3> &', cname='NATURAL_CTOR')],
         stub=_CSI, nothrow=_CSI, replace=_CSI, outline_fp='all', unwind_complete=4, defines=dict(DEF), expect_fail=['REACHABILITY-GUARD']),
    dict(name='natural_surface_point', enforce='Objects_NaturalCoordinate_get_surface_point', contracts='c04_natural.c', harness='h_natural_surface_point',
         targets=[dict(tu=NC, qual='WorldBuilder::Objects::NaturalCoordinate::get_surface_point')],
         outline_fp='all', unwind_complete=4, defines=dict(DEF), expect_fail=['REACHABILITY-GUARD'],
         canaries=[(r'(case 1:\n\s*coordinate\.point\.e\[\(\(\(unsigned long\)0\)\)\] = this_->coordinates\.e\[)\(\(unsigned long\)1\)\]', r'\1((unsigned long)0)]', 'spherical surface point takes the radius as longitude')]),
    dict(name='natural_surface_coordinates', enforce='Objects_NaturalCoordinate_get_surface_coordinates', contracts='c04_natural.c', harness='h_natural_surface_coordinates',
         targets=[dict(tu=NC, qual='WorldBuilder::Objects::NaturalCoordinate::get_surface_coordinates')],
         outline_fp='all', unwind_complete=4, defines=dict(DEF), expect_fail=['REACHABILITY-GUARD']),
]

# the area-feature extent guard ("writes iff covers") is the C02 contract; run it here for one family
import importlib.util as _ilu
_spec = _ilu.spec_from_file_location('c02', os.path.join(os.path.dirname(os.path.abspath(__file__)), 'C02.py'))
_c02 = _ilu.module_from_spec(_spec)
_spec.loader.exec_module(_c02)
UNITS = [u for u in UNITS_ALL if not u.get('experimental')] + [u for u in _c02.UNITS if u['name'] in ('continental_plate_properties', 'oceanic_plate_properties', 'mantle_layer_properties', 'plume_properties')]


# ----------------------------------------------------------------------------- native replay oracle
def cyc(a1, a2, f):
    if abs(a2 - a1) > math.pi:
        if a2 > a1:
            a1 += 2 * math.pi
        else:
            a2 += 2 * math.pi
    return (1 - f) * a1 + f * a2


def native_oracle(witness, work, search_seed=None):
    """plume membership between cross sections = ellipse with linearly interpolated centre / semi-major axis / eccentricity and
    cyclically interpolated rotation angle (the short way round), evaluated independently; area feature = closed polygon x closed depth range"""
    import oracle
    rnd = random.Random(search_seed or 1)
    # a plume whose cross sections have no area (semi-major axis 0) contains no point
    for axes, eccs in [([0.0, 0.0], [0.5, 0.5]), ([30e3, 30e3], [1.0, 1.0])]:
        text = json.dumps({"version": "1.1", "coordinate system": {"model": "cartesian"}, "features": [
            {"model": "plume", "name": "P", "min depth": 5e3, "max depth": 120e3, "coordinates": [[50e3, 50e3], [50e3, 50e3]],
             "cross section depths": [20e3, 100e3], "semi-major axis": axes, "eccentricity": eccs, "rotation angles": [0, 0],
             "composition models": [{"model": "uniform", "compositions": [0]}]}]})
        q = oracle.Q(text, work, name='degenerate')
        try:
            if not q.construct_error:
                for (x, y) in [(4500e3, 50e3), (50e3, 90e3), (60e3, 50e3)]:
                    st, v = q.ask('c3 %r %r %r %r 0' % (x, y, 1000e3 - 60e3, 60e3))
                    if st == 'OK' and float.fromhex(v[0]) > 0.5:
                        return dict(status='violated', input=dict(semi_major_axis=axes, eccentricity=eccs, point=[x, y], depth=60e3),
                                    detail='plume centred at (50 km, 50 km) with semi-major axis %s and eccentricity %s (cross sections without area): the point (%g km, %g km) at depth 60 km carries the plume composition' % (axes, eccs, x / 1e3, y / 1e3))
        finally:
            q.close()
    for trial in range(6):
        angs = rnd.choice([[10, 350], [350, 20], [100, 300], [300, 100], [45, 200], [200, 30]])
        ecc = rnd.choice([0.6, 0.8])
        a = 30e3
        dep = [20e3, 100e3]
        text = json.dumps({"version": "1.1", "coordinate system": {"model": "cartesian"}, "features": [
            {"model": "plume", "name": "P", "min depth": 5e3, "max depth": 120e3, "coordinates": [[50e3, 50e3], [50e3, 50e3]],
             "cross section depths": dep, "semi-major axis": [a, a], "eccentricity": [ecc, ecc], "rotation angles": angs,
             "composition models": [{"model": "uniform", "compositions": [0]}]}]})
        q = oracle.Q(text, work)
        try:
            if q.construct_error:
                continue
            for _ in range(120):
                d = rnd.uniform(dep[0] + 1e3, dep[1] - 1e3)
                f = (d - dep[0]) / (dep[1] - dep[0])
                th = cyc(math.pi / 2 - math.radians(angs[0]), math.pi / 2 - math.radians(angs[1]), f)
                x, y = 50e3 + rnd.uniform(-35e3, 35e3), 50e3 + rnd.uniform(-35e3, 35e3)
                dx, dy = x - 50e3, y - 50e3
                xr, yr = dx * math.cos(th) + dy * math.sin(th), -dx * math.sin(th) + dy * math.cos(th)
                b = a * math.sqrt(1 - ecc * ecc)
                val = (xr / a) ** 2 + (yr / b) ** 2
                if abs(val - 1.0) < 0.05:
                    continue
                st, v = q.ask('c3 %r %r %r %r 0' % (x, y, 1000e3 - d, d))
                if st != 'OK':
                    continue
                inside = float.fromhex(v[0]) > 0.5
                if inside != (val < 1.0):
                    return dict(status='violated', detail='plume with rotation angles %s deg, eccentricity %r: at depth %r the point (%r,%r) is %s the cyclically interpolated ellipse (axis angle %.1f deg from x, normalised radius^2 %.3f) but the library reports it %s'
                                                          % (angs, ecc, d, x, y, 'inside' if val < 1 else 'outside', math.degrees(th) % 360, val, 'inside' if inside else 'outside'))
        finally:
            q.close()
    # area features whose min (max) depth is a surface while the other bound is a constant: membership follows the LOCAL depth range
    for fam in ('continental plate', 'oceanic plate', 'mantle layer'):
        for rng, inside, outside in (({"min depth": [[10e3], [100e3, [[500e3, 500e3]]]], "max depth": 200e3}, [150e3], [50e3, 99e3]),
                                     ({"min depth": 10e3, "max depth": [[200e3], [60e3, [[500e3, 500e3]]]]}, [30e3], [61e3, 150e3])):
            text = json.dumps({"version": "1.1", "coordinate system": {"model": "cartesian"}, "features": [
                dict({"model": fam, "name": "A", "coordinates": [[0, 0], [1000e3, 0], [1000e3, 1000e3], [0, 1000e3]],
                      "composition models": [{"model": "uniform", "compositions": [0]}]}, **rng)]})
            q = oracle.Q(text, work, name='localrange')
            try:
                if q.construct_error:
                    continue
                for d, exp in [(x, True) for x in inside] + [(x, False) for x in outside]:
                    st, v = q.ask('c3 500e3 500e3 %r %r 0' % (1000e3 - d, d))
                    if st == 'OK' and (float.fromhex(v[0]) > 0.5) != exp:
                        return dict(status='violated', input=dict(feature=fam, depth_range=rng, point=[500e3, 500e3, d]),
                                    detail='%s with %s: at the listed point (500 km, 500 km), depth %g km, the point should be %s the feature (local depth range) but the library says %s'
                                           % (fam, json.dumps(rng), d / 1e3, 'inside' if exp else 'outside', 'inside' if not exp else 'outside'))
            finally:
                q.close()
    # area feature: closed polygon and closed depth interval
    text = json.dumps({"version": "1.1", "coordinate system": {"model": "cartesian"}, "features": [
        {"model": "continental plate", "name": "A", "min depth": 10e3, "max depth": 50e3, "coordinates": [[0, 0], [100e3, 0], [100e3, 100e3], [50e3, 150e3], [0, 100e3]],
         "composition models": [{"model": "uniform", "compositions": [0]}]}]})
    q = oracle.Q(text, work)
    try:
        for (x, y, d, exp) in [(50e3, 50e3, 10e3, True), (50e3, 50e3, 50e3, True), (50e3, 50e3, 9.99e3, False), (50e3, 50e3, 50.01e3, False), (0, 50e3, 20e3, True),
                               (100e3, 100e3, 20e3, True), (50e3, 150e3, 20e3, True), (75e3, 125e3, 20e3, True), (76e3, 125e3, 20e3, False), (-1.0, 50e3, 20e3, False), (50e3, 0, 20e3, True)]:
            st, v = q.ask('c3 %r %r %r %r 0' % (x, y, 1000e3 - d, d))
            if st == 'OK' and (float.fromhex(v[0]) > 0.5) != exp:
                return dict(status='violated', detail='continental plate polygon [[0,0],[100e3,0],[100e3,100e3],[50e3,150e3],[0,100e3]], depth 10-50 km: point (%r,%r) depth %r should be %s' % (x, y, d, 'inside' if exp else 'outside'))
    finally:
        q.close()
    return dict(status='holds', detail='6 plumes x 120 points agree with the cyclically interpolated ellipse; polygon/depth boundary points of an area feature are members')


def witness_from_trace(unit, failure, seed):
    return {}
