import os, sys
META = dict(
    title='Features paint in file order; only covering features matter; operations compose',
    technique='CBMC code contracts (DFCC) on the mechanically extracted feature functions; model calls are interface-contract stubs with ghost protocol state (call order, chained value, forwarded arguments); arbitrary-slot frame argument',
    level_text='Proof per function, for all inputs within the size bounds: the world applies every feature once, in file order (C01/props3d); '
               'an area feature or plume that does not contain the point leaves every slot of the answer bit-identical; one that does folds exactly its '
               'models of the requested kind, in list order, over the value painted so far (an empty list leaves it as it was), writes its own tag, '
               'and writes nothing outside the block of the entry it processes; apply_operation and the uniform composition model implement the '
               'declared operation algebra; the tian water content model (oceanic plate, subducting plate) leaves the value untouched outside its range and asks nothing, '
               'and inside it asks the world once for the temperature at its own position and depth, evaluates calculate_water_content at '
               'max(0.5, min(density*9.81*depth/1e9, cutoff pressure)) and that temperature, and applies the operation with min(max water content, result)/100 '
               'under the same listed / not-listed rule.',
    level_note='Trusted: translator, shims, CBMC; interface contracts of the model virtuals (any value may be returned); polygon test and depth '
               'surfaces are stubs here (C04/C07/C11). Velocity is specified to restart from zero in every covering feature, as the code does.',
    scope='ContinentalPlate/OceanicPlate/MantleLayer/Plume::properties; World::properties feature loop (shared with C01); apply_operation; uniform composition of all six feature families; TianWaterContent::get_composition (oceanic plate, subducting plate); FeatureUtilities::add_vector_unique (tag numbering)',
    not_covered=['SubductingPlate and Fault properties() (DFCC does not finish on them, DESIGN 15)', 'random models', 'the polynomials inside TianWaterContent::calculate_water_content (a contract stub here: arguments checked, any result)'],
    enforced_elsewhere={'grains_ctor': 'C02/grains_ctor', 'grains_unroll_into': 'C02/grains_unroll'},
)
FAMILIES = [('ContinentalPlate', 'continental_plate'), ('OceanicPlate', 'oceanic_plate'), ('MantleLayer', 'mantle_layer')]
ALIASES = {'WorldBuilder::grains::grains|const std::vector<double> &': 'grains_ctor'}
STUBS = ['Objects_Surface_local_value', 'Objects_NaturalCoordinate_get_surface_point', 'Utilities_polygon_contains_point',
         'Objects_NaturalCoordinate_get_surface_coordinates', 'grains_ctor', 'grains_unroll_into']
DEF = {'MAXP': 2, 'WB_VEC_CAP': 2, 'WB_CAP_vec_arr_uint_3': 2, 'WB_CAP_vec_ulong': 2, 'WB_CAP_vec_double': 24, 'WB_CAP_vec_arr_arr_double_3_3': 2}
DEFT = {'MAXP': 4, 'WB_VEC_CAP': 3, 'WB_CAP_vec_arr_uint_3': 4, 'WB_CAP_vec_ulong': 4, 'WB_CAP_vec_double': 32}

ENTRY_CAPTURE = ('if (IN_BLK) g_e_slot = output->data[wb_g_slot]; g_e_next = g_next; g_e_chain = g_chain; g_e_gsize = g_gsize; g_e_grot = g_grot; '
                 'g_e_v0 = g_vchain0; g_e_v1 = g_vchain1; g_e_v2 = g_vchain2;')

UNITS = []
for fam, fdir in FAMILIES:
    fn = 'Features_%s_properties' % fam
    I = lambda kind, m: 'Features_%sModels_%s_Interface_%s' % (fam, kind, m)
    inv_common = 'i_property <= properties->n && !wb_thrown && output->n == g_total'
    UNITS.append(dict(
        name='%s_properties' % fdir, enforce=fn, contracts='c02_area_feature.c', harness='h_feature',
        targets=[dict(tu='source/world_builder/features/%s.cc' % fdir, qual='WorldBuilder::Features::%s::properties' % fam)],
        aliases=ALIASES, stub=STUBS,
        nothrow=['Objects_NaturalCoordinate_get_surface_point', 'Objects_NaturalCoordinate_get_surface_coordinates', 'grains_ctor', 'grains_unroll_into'],
        replace=STUBS + ['CoordinateSystems_Interface_natural_coordinate_system', I('Temperature', 'get_temperature'),
                         I('Composition', 'get_composition'), I('Grains', 'get_grains'), I('Velocity', 'get_velocity')],
        defines=dict(DEF, FAM=fam), defines_thorough=dict(DEFT), timeout_thorough=1800, expect_fail=['REACHABILITY-GUARD'], timeout=600,
        loops={
            (fn, 1): dict(
                begin='g_active = (IN_BLK && i_property == g_blk) ? 1 : 0; if (g_active) { g_next = 0; g_chain = output->data[wb_g_slot]; }',
                end='g_active = 0;',
                contract='__CPROVER_assigns(i_property, *output, wb_thrown, g_active, g_next, g_chain, g_vchain0, g_vchain1, g_vchain2, g_gsize, g_grot, g_e_slot, g_e_chain, g_e_gsize, g_e_grot, g_e_v0, g_e_v1, g_e_v2, g_e_next)\n'
                         '__CPROVER_loop_invariant(%s && g_active == 0)\n' % inv_common +
                         '__CPROVER_loop_invariant((IN_BLK && i_property <= g_blk) ==> SAMEL(output->data[wb_g_slot], g_before))\n'
                         '__CPROVER_loop_invariant((IN_BLK && i_property <= g_blk) ==> g_next == 0)\n'
                         '__CPROVER_loop_invariant((IN_BLK && i_property > g_blk && KIND == 1u) ==> (g_next == this_->temperature_models.n && (g_next == 0 ? SAMEL(output->data[wb_g_slot], g_before) : SAMEL(output->data[wb_g_slot], g_chain))))\n'
                         '__CPROVER_loop_invariant((IN_BLK && i_property > g_blk && KIND == 2u) ==> (g_next == this_->composition_models.n && (g_next == 0 ? SAMEL(output->data[wb_g_slot], g_before) : SAMEL(output->data[wb_g_slot], g_chain))))\n'
                         '__CPROVER_loop_invariant((IN_BLK && i_property > g_blk && KIND == 4u) ==> output->data[wb_g_slot] == (double)this_->base_.tag_index)\n'
                         '__CPROVER_loop_invariant((IN_BLK && i_property > g_blk && KIND == 5u) ==> (g_next == this_->velocity_models.n && (g_next == 0 ? output->data[wb_g_slot] == 0.0 : (OFF == 0 ? SAMEL(output->data[wb_g_slot], g_vchain0) : OFF == 1 ? SAMEL(output->data[wb_g_slot], g_vchain1) : SAMEL(output->data[wb_g_slot], g_vchain2)))))\n'
                         '__CPROVER_loop_invariant((IN_BLK && i_property > g_blk && KIND == 3u) ==> (g_next == this_->grains_models.n && (g_next == 0 ? SAMEL(output->data[wb_g_slot], g_before) : (OFF < NGR ? SAMEL(output->data[wb_g_slot], g_gsize) : SAMEL(output->data[wb_g_slot], g_grot)))))\n'
                         '__CPROVER_decreases(properties->n - i_property)'),
            (fn, 2): dict(
                pre=ENTRY_CAPTURE,
                contract='__CPROVER_assigns(wb_i2, *output, wb_thrown, g_next, g_chain)\n'
                         '__CPROVER_loop_invariant(wb_i2 <= wb_r2->n && wb_r2 == &this_->temperature_models && !wb_thrown && output->n == g_total)\n'
                         '__CPROVER_loop_invariant(g_active ==> (g_next == wb_i2 && SAMEL(output->data[wb_g_slot], g_chain)))\n'
                         '__CPROVER_loop_invariant((!g_active && IN_BLK) ==> SAMEL(output->data[wb_g_slot], g_e_slot))\n'
                         '__CPROVER_loop_invariant(!g_active ==> (g_next == g_e_next && SAMEL(g_chain, g_e_chain)))\n'
                         '__CPROVER_decreases(wb_r2->n - wb_i2)'),
            (fn, 3): dict(
                pre=ENTRY_CAPTURE,
                contract='__CPROVER_assigns(wb_i3, *output, wb_thrown, g_next, g_chain)\n'
                         '__CPROVER_loop_invariant(wb_i3 <= wb_r3->n && wb_r3 == &this_->composition_models && !wb_thrown && output->n == g_total)\n'
                         '__CPROVER_loop_invariant(g_active ==> (g_next == wb_i3 && SAMEL(output->data[wb_g_slot], g_chain)))\n'
                         '__CPROVER_loop_invariant((!g_active && IN_BLK) ==> SAMEL(output->data[wb_g_slot], g_e_slot))\n'
                         '__CPROVER_loop_invariant(!g_active ==> (g_next == g_e_next && SAMEL(g_chain, g_e_chain)))\n'
                         '__CPROVER_decreases(wb_r3->n - wb_i3)'),
            (fn, 4): dict(
                pre=ENTRY_CAPTURE + ' if (g_active) { g_gsize = GR_SIZE(grains); g_grot = GR_ROT(grains); }',
                contract='__CPROVER_assigns(wb_i4, grains, wb_thrown, g_next, g_gsize, g_grot)\n'
                         '__CPROVER_loop_invariant(wb_i4 <= wb_r4->n && wb_r4 == &this_->grains_models && !wb_thrown)\n'
                         '__CPROVER_loop_invariant(grains.sizes.n == (size_t)(*properties).data[i_property].e[2] && grains.rotation_matrices.n == grains.sizes.n)\n'
                         '__CPROVER_loop_invariant(g_active ==> (g_next == wb_i4 && SAMEL(GR_SIZE(grains), g_gsize) && SAMEL(GR_ROT(grains), g_grot)))\n'
                         '__CPROVER_loop_invariant(!g_active ==> (g_next == g_e_next && SAMEL(g_gsize, g_e_gsize) && SAMEL(g_grot, g_e_grot)))\n'
                         '__CPROVER_decreases(wb_r4->n - wb_i4)'),
            (fn, 5): dict(
                pre=ENTRY_CAPTURE + ' if (g_active) { g_vchain0 = velocity.e[0]; g_vchain1 = velocity.e[1]; g_vchain2 = velocity.e[2]; }',
                contract='__CPROVER_assigns(wb_i5, velocity, wb_thrown, g_next, g_vchain0, g_vchain1, g_vchain2)\n'
                         '__CPROVER_loop_invariant(wb_i5 <= wb_r5->n && wb_r5 == &this_->velocity_models && !wb_thrown)\n'
                         '__CPROVER_loop_invariant(g_active ==> (g_next == wb_i5 && SAMEL(velocity.e[0], g_vchain0) && SAMEL(velocity.e[1], g_vchain1) && SAMEL(velocity.e[2], g_vchain2)))\n'
                         '__CPROVER_loop_invariant((g_active && wb_i5 == 0) ==> (velocity.e[0] == 0.0 && velocity.e[1] == 0.0 && velocity.e[2] == 0.0))\n'
                         '__CPROVER_loop_invariant(!g_active ==> (g_next == g_e_next && SAMEL(g_vchain0, g_e_v0) && SAMEL(g_vchain1, g_e_v1) && SAMEL(g_vchain2, g_e_v2)))\n'
                         '__CPROVER_decreases(wb_r5->n - wb_i5)'),
        }))

# Plume::properties: the same fold contract with the plume geometry (contracts/c02_plume_feature.c); also run under C04
import copy as _copy
_pl = _copy.deepcopy([u for u in UNITS if u['name'] == 'continental_plate_properties'][0])
_pfn = 'Features_Plume_properties'
_pl.update(name='plume_properties', enforce=_pfn, contracts='c02_plume_feature.c',
           targets=[dict(tu='source/world_builder/features/plume.cc', qual='WorldBuilder::Features::Plume::properties')],
           stub=['Utilities_fraction_from_ellipse_center', 'Utilities_interpolate_angle_across_zero', 'Objects_NaturalCoordinate_get_surface_coordinates', 'grains_ctor', 'grains_unroll_into'],
           nothrow=['Objects_NaturalCoordinate_get_surface_coordinates', 'Utilities_interpolate_angle_across_zero', 'grains_ctor', 'grains_unroll_into'],
           replace=['Utilities_fraction_from_ellipse_center', 'Utilities_interpolate_angle_across_zero', 'Objects_NaturalCoordinate_get_surface_coordinates', 'grains_ctor', 'grains_unroll_into',
                    'wb_upper_bound_idx', 'CoordinateSystems_Interface_natural_coordinate_system'] +
                   ['Features_PlumeModels_%s_Interface_%s' % km for km in [('Temperature', 'get_temperature'), ('Composition', 'get_composition'), ('Grains', 'get_grains'), ('Velocity', 'get_velocity')]],
           outline_fp='all', unwind_complete=3, timeout=1500,
           inserts=[(r'if \(\(\(\(depth <= this_->max_depth\) && \(depth >= this_->min_depth\)\) && \(relative_distance_from_center <= ', 'PLUME_LEMMA')])
_pl['defines'] = dict(DEF, WB_CAP_vec_Point2=3)
_pl['defines'].pop('FAM', None)
_pl['defines_thorough'] = dict(DEFT, WB_CAP_vec_Point2=3)
_pl['loops'] = {(_pfn, k): dict((kk, vv.replace('Features_ContinentalPlate_properties', _pfn)) for kk, vv in lc.items()) for (f_, k), lc in _pl['loops'].items()}
_pl.pop('canaries', None)
UNITS.append(_pl)

# tag numbering: FeatureUtilities::add_vector_unique
_tfn = 'Features_FeatureUtilities_add_vector_unique'
UNITS.append(dict(
    name='tag_index', enforce=_tfn, contracts='c02_tag_index.c', harness='h_tag_index',
    targets=[dict(tu='source/world_builder/features/feature_utilities.cc', qual='WorldBuilder::Features::FeatureUtilities::add_vector_unique')],
    defines={'MAXP': 4, 'WB_VEC_CAP': 2, 'WB_CAP_vec_wb_string': 5}, defines_thorough={'MAXP': 16, 'WB_CAP_vec_wb_string': 17}, expect_fail=['REACHABILITY-GUARD'],
    canaries=[(r'return i;', 'return i + 1;', 'index of the entry after the match'),
              (r'return \(\(\*vector\)\.n - \(\(unsigned long\)1\)\);', 'return ((*vector).n);', 'index one past the appended entry')],
    loops={(_tfn, 1): dict(contract='__CPROVER_assigns(i)\n'
                                    '__CPROVER_loop_invariant(i <= vector->n && (g_present ==> i <= g_first))\n'
                                    '__CPROVER_decreases(vector->n - i)')}))

GR = 'source/world_builder/grains.cc'
GDEF = {'WB_VEC_CAP': 2, 'WB_CAP_vec_double': 24, 'WB_CAP_vec_arr_arr_double_3_3': 2}
ROT = 'this_->rotation_matrices.data[g_gi].e[g_gr].e[g_gc]'
UNITS.append(dict(
    name='grains_ctor', enforce='grains_ctor', contracts='c02_grains.c', harness='h_grains_ctor',
    targets=[dict(tu=GR, qual='WorldBuilder::grains::grains', sig='const std::vector<double> &', cname='grains_ctor')],
    aliases=ALIASES, defines=dict(GDEF), defines_thorough={'WB_CAP_vec_double': 48, 'WB_CAP_vec_arr_arr_double_3_3': 4}, expect_fail=['REACHABILITY-GUARD'],
    canaries=[(r'\(i_grain \* \(\(unsigned int\)9\)\)\)\) \+ \(\(unsigned long\)5\)', '(i_grain * ((unsigned int)9)))) + ((unsigned long)4)', 'matrix entry (1,2) read from the slot of (1,1)')],
    loops={
        ('grains_ctor', 1): dict(
            contract='__CPROVER_assigns(i_grain, self_.sizes)\n'
                     '__CPROVER_loop_invariant(i_grain <= number_of_grains && this_ == &self_ && self_.sizes.n == number_of_grains)\n'
                     '__CPROVER_loop_invariant(g_gi < i_grain ==> SAMEL(self_.sizes.data[g_gi], vector->data[start_entry + g_gi]))\n'
                     '__CPROVER_decreases(number_of_grains - i_grain)'),
        ('grains_ctor', 2): dict(
            contract='__CPROVER_assigns(i_grain, self_.rotation_matrices)\n'
                     '__CPROVER_loop_invariant(i_grain <= number_of_grains && this_ == &self_ && self_.rotation_matrices.n == number_of_grains)\n'
                     '__CPROVER_loop_invariant((g_gi < i_grain && g_gr < 3 && g_gc < 3) ==> SAMEL(self_.rotation_matrices.data[g_gi].e[g_gr].e[g_gc], vector->data[start_entry + number_of_grains + 9 * g_gi + 3 * g_gr + g_gc]))\n'
                     '__CPROVER_decreases(number_of_grains - i_grain)'),
    }))
UNITS.append(dict(
    name='grains_unroll', enforce='grains_unroll_into', contracts='c02_grains.c', harness='h_grains_unroll',
    targets=[dict(tu=GR, qual='WorldBuilder::grains::unroll_into')],
    aliases=ALIASES, defines=dict(GDEF), defines_thorough={'WB_CAP_vec_double': 48, 'WB_CAP_vec_arr_arr_double_3_3': 4}, expect_fail=['REACHABILITY-GUARD'],
    canaries=[(r'\(\*vector\)\.data\[wb_idx\(\(start_entry \+ \(\(unsigned long\)i_grain\)\)', '(*vector).data[wb_idx((start_entry + 1 + ((unsigned long)i_grain))', 'sizes written one slot too far')],
    loops={
        ('grains_unroll_into', 1): dict(
            contract='__CPROVER_assigns(i_grain, *vector)\n'
                     '__CPROVER_loop_invariant(i_grain <= number_of_grains && number_of_grains == this_->sizes.n && vector->n == __CPROVER_loop_entry(vector->n))\n'
                     '__CPROVER_loop_invariant(g_gi < i_grain ==> SAMEL(vector->data[start_entry + g_gi], this_->sizes.data[g_gi]))\n'
                     '__CPROVER_loop_invariant((wb_g_slot < vector->n && (wb_g_slot < start_entry || wb_g_slot >= start_entry + i_grain)) ==> SAMEL(vector->data[wb_g_slot], g_e_slot))\n'
                     '__CPROVER_decreases(number_of_grains - i_grain)'),
        ('grains_unroll_into', 2): dict(
            contract='__CPROVER_assigns(i_grain, *vector)\n'
                     '__CPROVER_loop_invariant(i_grain <= number_of_grains && number_of_grains == this_->sizes.n && vector->n == __CPROVER_loop_entry(vector->n))\n'
                     '__CPROVER_loop_invariant(g_gi < number_of_grains ==> SAMEL(vector->data[start_entry + g_gi], this_->sizes.data[g_gi]))\n'
                     '__CPROVER_loop_invariant((g_gi < i_grain && g_gr < 3 && g_gc < 3) ==> SAMEL(vector->data[start_entry + number_of_grains + 9 * g_gi + 3 * g_gr + g_gc], this_->rotation_matrices.data[g_gi].e[g_gr].e[g_gc]))\n'
                     '__CPROVER_loop_invariant((wb_g_slot < vector->n && (wb_g_slot < start_entry || wb_g_slot >= start_entry + number_of_grains + 9 * (size_t)i_grain)) ==> SAMEL(vector->data[wb_g_slot], g_e_slot))\n'
                     '__CPROVER_decreases(number_of_grains - i_grain)'),
    }))

for fam, fdir, variant in [(f, d, None) for f, d in FAMILIES] + [('Plume', 'plume', 'VARIANT_PLUME'), ('SubductingPlate', 'subducting_plate', 'VARIANT_DIST'), ('Fault', 'fault', 'VARIANT_DIST')]:
    fn = 'Features_%sModels_Composition_Uniform_get_composition' % fam
    dd = {'FAM': fam, 'MAXP': 4, 'WB_VEC_CAP': 2, 'WB_CAP_vec_uint': 4, 'WB_CAP_vec_double': 4}
    if variant:
        dd[variant] = 1
    if fam == 'Fault':
        dd['IS_FAULT'] = 1
    surf = [] if variant else ['Objects_Surface_local_value', 'Objects_NaturalCoordinate_get_surface_point']
    UNITS.append(dict(
        name='%s_C_uniform' % fdir, enforce=fn, contracts='c02_composition_uniform.c', harness='h_composition_uniform',
        targets=[dict(tu='source/world_builder/features/%s_models/composition/uniform.cc' % fdir,
                      qual='WorldBuilder::Features::%sModels::Composition::Uniform::get_composition' % fam)],
        stub=surf,
        nothrow=['Objects_NaturalCoordinate_get_surface_point'] if surf else [],
        replace=surf,
        defines=dd,
        defines_thorough={'MAXP': 16, 'WB_CAP_vec_uint': 16, 'WB_CAP_vec_double': 16},
        expect_fail=['REACHABILITY-GUARD'], outline_fp='all',
        canaries=[(r'operation == E_Operations_REPLACE\)', 'operation == E_Operations_REPLACE_DEFINED_ONLY)', 'replace-defined-only clears unlisted compositions instead of replace')],
        loops={(fn, 1): dict(
            contract='__CPROVER_assigns(i)\n'
                     '__CPROVER_loop_invariant(i <= this_->compositions.n && (g_listed ==> i <= g_first))\n'
                     '__CPROVER_decreases(this_->compositions.n - i)')}))



# tian water content (oceanic plate, subducting plate): same selection rule, fraction = capped partition coefficient / 100
_tfn = 'TIAN_GET'
for _fam, _fdir, _var in [('OceanicPlate', 'oceanic_plate', None), ('SubductingPlate', 'subducting_plate', 'VARIANT_DIST')]:
    _tsurf = [] if _var else ['Objects_Surface_local_value', 'Objects_NaturalCoordinate_get_surface_point']
    _tstubs = _tsurf + ['World_properties_3d', 'TIAN_CALC']
    _dd = {'MAXP': 4, 'WB_VEC_CAP': 2, 'WB_CAP_vec_uint': 4, 'WB_CAP_vec_double': 4}
    if _var:
        _dd[_var] = 1
    UNITS.append(dict(
        name='%s_C_tian' % _fdir, enforce=_tfn, contracts='c02_composition_tian.c', harness='h_composition_tian',
        targets=[dict(tu='source/world_builder/features/%s_models/composition/tian2019_water_content.cc' % _fdir,
                      qual='WorldBuilder::Features::%sModels::Composition::TianWaterContent::get_composition' % _fam, cname='TIAN_GET')],
        aliases={'WorldBuilder::Features::%sModels::Composition::TianWaterContent::calculate_water_content|' % _fam: 'TIAN_CALC',
                 'WorldBuilder::World::properties|std::array<double, 3>': 'World_properties_3d'},
        stub=_tstubs, nothrow=(['Objects_NaturalCoordinate_get_surface_point'] if _tsurf else []) + ['TIAN_CALC'], replace=_tstubs,
        defines=_dd, defines_thorough={'MAXP': 16, 'WB_CAP_vec_uint': 16, 'WB_CAP_vec_double': 16},
        expect_fail=['REACHABILITY-GUARD'], outline_fp='all',
        canaries=[(r'operation == E_Operations_REPLACE\)', 'operation == E_Operations_REPLACE_DEFINED_ONLY)', 'replace-defined-only clears unlisted compositions instead of replace'),
                  (r'\(\((wb_t\d+) < (wb_t\d+)\) \? \1 : \2\)', r'((\1 < \2) ? \2 : \1)', 'cutoff pressure used as a lower instead of an upper bound'),
                  (r'\(\(partition_coefficient < (wb_t\d+)\) \? partition_coefficient : \1\)', r'((partition_coefficient < \1) ? \1 : partition_coefficient)', 'max water content used as a floor instead of a cap'),
                  (r'&position_in_cartesian_coordinates->point, depth, &(wb_t\d+)', r'&position_in_cartesian_coordinates->point, lithostatic_pressure, &\1', 'world asked at the pressure instead of the depth')],
        loops={(_tfn, 1): dict(
            contract='__CPROVER_assigns(i)\n'
                     '__CPROVER_loop_invariant(i <= this_->compositions.n && (g_listed ==> i <= g_first))\n'
                     '__CPROVER_decreases(this_->compositions.n - i)')}))

# ----------------------------------------------------------------------------- native replay oracle
import math, random, json
sys.path.insert(0, os.path.join(os.path.dirname(os.path.abspath(__file__)), '..', 'lib'))
G, TP, ALPHA, CP = 10.0, 1600.0, 3.5e-5, 1250.0
FEATURE_NAME = {'continental_plate': 'continental plate', 'oceanic_plate': 'oceanic plate', 'mantle_layer': 'mantle layer'}


def random_world(rnd, only_family=None):
    feats = []
    for k in range(rnd.randint(2, 4)):
        fam = only_family if (only_family and k == 1) else rnd.choice(list(FEATURE_NAME))
        x0 = rnd.choice([-1e6, -1e6, 0.0, 200e3])
        x1 = x0 + rnd.choice([500e3, 2e6])
        fmin = rnd.choice([0.0, 0.0, 50e3])
        fmax = fmin + rnd.choice([100e3, 300e3])
        tm, cm = [], []
        for _ in range(rnd.randint(0, 2)):
            tm.append({"model": "uniform", "min depth": rnd.choice([0.0, 40e3]), "max depth": rnd.choice([120e3, 1000e3]),
                       "temperature": rnd.choice([300.0, 777.5, 1500.0]), "operation": rnd.choice(["replace", "add", "subtract"])})
        for _ in range(rnd.randint(0, 3)):
            comps = rnd.sample([0, 1, 2, 3], rnd.randint(1, 2))
            cm.append({"model": "uniform", "min depth": rnd.choice([0.0, 40e3]), "max depth": rnd.choice([120e3, 1000e3]),
                       "compositions": comps, "fractions": [rnd.choice([0.25, 0.5, 1.0]) for _ in comps],
                       "operation": rnd.choice(["replace", "replace defined only", "add", "subtract"])})
        f = {"model": FEATURE_NAME[fam], "name": "F%d" % k, "min depth": fmin, "max depth": fmax,
             "coordinates": [[x0, -1e6], [x1, -1e6], [x1, 1e6], [x0, 1e6]]}
        if tm:
            f["temperature models"] = tm
        if cm:
            f["composition models"] = cm
        feats.append(f)
    return feats


def reference(feats, x, y, depth, ncomp=4):
    """the property statement, evaluated independently: background, then every covering feature in file order"""
    T = TP * math.exp(ALPHA * G * depth / CP)
    comp = [0.0] * ncomp
    tag = -1
    tags = []          # a feature's tag defaults to its model name; tags are numbered by first appearance in the file
    for f in feats:
        if f.get("tag", f["model"]) not in tags:
            tags.append(f.get("tag", f["model"]))
    for k, f in enumerate(feats):
        (x0, y0), (x1, _), (_, y1) = f["coordinates"][0], f["coordinates"][1], f["coordinates"][2]
        if not (x0 <= x <= x1 and y0 <= y <= y1 and f["min depth"] <= depth <= f["max depth"]):
            continue
        tag = tags.index(f.get("tag", f["model"]))
        for m in f.get("temperature models", []):
            if m["min depth"] <= depth <= m["max depth"]:
                T = m["temperature"] if m["operation"] == "replace" else T + m["temperature"] if m["operation"] == "add" else T - m["temperature"]
        for c in range(ncomp):
            v = comp[c]
            for m in f.get("composition models", []):
                if not (m["min depth"] <= depth <= m["max depth"]):
                    continue
                if c in m["compositions"]:
                    fr = m["fractions"][m["compositions"].index(c)]
                    v = fr if m["operation"].startswith("replace") else v + fr if m["operation"] == "add" else v - fr
                elif m["operation"] == "replace":
                    v = 0.0
            comp[c] = v
    return T, comp, tag


def plume_fold_oracle(work):
    """inside a plume the temperature (composition) models fold in list order over the value painted so far"""
    import oracle
    plume = {"model": "plume", "name": "P", "min depth": 5e3, "max depth": 300e3, "coordinates": [[500e3, 500e3], [500e3, 500e3]],
             "cross section depths": [50e3, 250e3], "semi-major axis": [100e3, 100e3], "eccentricity": [0.0, 0.0], "rotation angles": [0, 0]}
    cases = [([{"model": "uniform", "temperature": 1800.0}, {"model": "uniform", "temperature": 50.0, "operation": "add"}], 1850.0),
             ([{"model": "uniform", "temperature": 1800.0}, {"model": "uniform", "temperature": 50.0, "operation": "add"},
               {"model": "uniform", "temperature": 25.0, "operation": "subtract"}], 1825.0),
             ([{"model": "uniform", "temperature": 10.0, "operation": "add"}, {"model": "uniform", "temperature": 10.0, "operation": "add"}], 1020.0)]
    for models, expect in cases:
        text = json.dumps({"version": "1.1", "coordinate system": {"model": "cartesian"}, "features": [
            {"model": "mantle layer", "name": "M", "min depth": 0, "max depth": 400e3, "coordinates": [[0, 0], [1000e3, 0], [1000e3, 1000e3], [0, 1000e3]],
             "temperature models": [{"model": "uniform", "temperature": 1000.0}]},
            dict(plume, **{"temperature models": models})]})
        q = oracle.Q(text, work, name='plume_fold')
        try:
            if q.construct_error:
                return dict(status='error', detail=q.construct_error)
            for d in [100e3, 200e3]:
                st, v = q.ask('t3 500e3 510e3 %r %r' % (1000e3 - d, d))
                if st == 'OK' and abs(float.fromhex(v[0]) - expect) > 1e-9:
                    return dict(status='violated', world=dict(plume, **{"temperature models": models}), point=[500e3, 510e3, d],
                                detail='plume over a 1000 K mantle layer with temperature models %s: inside the plume at depth %g km the library returns %r, the in-order fold gives %r'
                                       % (json.dumps(models), d / 1e3, float.fromhex(v[0]), expect))
        finally:
            q.close()
    return None


def native_oracle(witness, work, search_seed=None):
    import oracle
    r_ = plume_fold_oracle(work)
    if r_ is not None:
        return r_
    rnd = random.Random(search_seed if search_seed is not None else 1)
    nworlds = 25
    for wi in range(nworlds):
        feats = random_world(rnd, witness.get('family'))
        text = json.dumps({"version": "1.1", "coordinate system": {"model": "cartesian"}, "gravity model": {"model": "uniform", "magnitude": G},
                           "potential mantle temperature": TP, "thermal expansion coefficient": ALPHA, "specific heat": CP, "features": feats})
        q = oracle.Q(text, work)
        try:
            if q.construct_error:
                continue
            for _ in range(12):
                x, y = rnd.choice([-500e3, 100e3, 300e3, 900e3, 1500e3]), rnd.uniform(-9e5, 9e5)
                d = rnd.choice([0.0, 20e3, 45e3, 60e3, 100e3, 130e3, 250e3, 500e3])
                st, v = q.ask('p3 %r %r %r %r 1,0,0 2,0,0 2,1,0 2,2,0 2,3,0 4,0,0' % (x, y, 3000e3 - d, d))
                if st != 'OK':
                    continue
                got = [float.fromhex(t) for t in v]
                T, comp, tag = reference(feats, x, y, d)
                exp = [T] + comp + [float(tag)]
                bad = [i for i, (a, b) in enumerate(zip(got, exp)) if abs(a - b) > 1e-9 * max(1.0, abs(b))]
                if bad:
                    names = ['temperature', 'composition 0', 'composition 1', 'composition 2', 'composition 3', 'tag']
                    return dict(status='violated', world=feats, point=[x, y, d],
                                detail='at (x,y,depth)=(%r,%r,%r) the library returns %s but painting the covering features in file order gives %s (differs in: %s)'
                                       % (x, y, d, got, exp, ', '.join(names[i] for i in bad)))
        finally:
            q.close()
    return dict(status='holds', detail='%d random worlds x 12 points agree with the file-order painting reference' % nworlds)


def witness_from_trace(unit, failure, seed):
    fam = unit['name'].split('_C_')[0].split('_properties')[0]
    return dict(family=fam if fam in FEATURE_NAME else None)
