import os, sys, copy, importlib.util
HERE = os.path.dirname(os.path.abspath(__file__))
sys.path.insert(0, os.path.join(HERE, '..', 'lib'))
_spec = importlib.util.spec_from_file_location('c01', os.path.join(HERE, 'C01.py'))
C01 = importlib.util.module_from_spec(_spec)
_spec.loader.exec_module(C01)

META = dict(
    title='Outside every feature the background state is returned',
    technique='CBMC code contracts (DFCC) on the mechanically extracted 3D evaluator; background formula compared structurally (uninterpreted exp)',
    level_text='Proof for all requests within the size bound, all depths and constants (full double domain incl. NaN/Inf): before and '
               'without features every slot of the answer holds the background value of its block - temperature Tp*exp(((alpha*g)/cp)*depth) '
               'with g the value of the gravity model, 0 for composition/grains/velocity, -1 for the tag - and a forced surface temperature at '
               'depth 0 is what is returned whatever the features do and however the request is shaped.',
    level_note='Trusted: translator, shims, CBMC; the feature interface contract (features may write any value into a slot: that is what '
               'makes "regardless of features" a real obligation); exp is an uninterpreted symbol. Parameters::get<T>(key) is a contract stub answering an arbitrary value per key.',
    scope='World::properties (3D): background per block kind, adiabat expression, forced surface temperature for every request shape; GravityModel::Uniform::gravity_norm returns the configured magnitude; World::parse_entries stores the value of each constant\'s own key (potential mantle temperature, surface temperature, force surface temperature, thermal expansion coefficient, specific heat, thermal diffusivity)',
    not_covered=['Parameters::get itself (rapidjson DOM lookup, schema defaults)', 'that Uniform::parse_entries stores the "magnitude" key',
                 'the 2*epsilon window around depth 0 is accepted as an implementation of "at depth zero"'],
    enforced_elsewhere={},
)

_u = copy.deepcopy([u for u in C01.UNITS if u['name'] == 'props3d'][0])
_u['name'] = 'props3d_background'

# World::parse_entries (constants wiring / cross-section direction): shared contract file, unit defined in C15.py
_spec15 = importlib.util.spec_from_file_location('c15', os.path.join(HERE, 'C15.py'))
C15 = importlib.util.module_from_spec(_spec15)
_spec15.loader.exec_module(C15)
_wp = copy.deepcopy(C15.WORLD_PARSE)
_wp['name'] = 'world_parse_constants'

UNITS = [
    _u, _wp,
    dict(name='gravity_uniform', enforce='GravityModel_Uniform_gravity_norm', contracts='c03_gravity.c',
         targets=[dict(tu='source/world_builder/gravity_model/uniform.cc', qual='WorldBuilder::GravityModel::Uniform::gravity_norm')],
         defines={'WB_VEC_CAP': 2}, expect_fail=['REACHABILITY-GUARD']),
]


# ----------------------------------------------------------------------------- native replay oracle
import math, random

WORLD = """{
  "version":"1.1", "coordinate system":{"model":"cartesian"}, "gravity model":{"model":"uniform", "magnitude":%(g)r},
  "potential mantle temperature":%(Tp)r, "thermal expansion coefficient":%(alpha)r, "specific heat":%(cp)r,
  "surface temperature":%(Ts)r, "force surface temperature":%(force)s,
  "features":[
    {"model":"continental plate", "name":"A", "max depth":250e3, "coordinates":[[0,0],[1e6,0],[1e6,1e6],[0,1e6]],
     "temperature models":[{"model":"uniform", "temperature":1000}],
     "composition models":[{"model":"uniform", "compositions":[0], "fractions":[0.25]}]}
  ]}"""


def native_oracle(witness, work, search_seed=None):
    """C03 on the real library: (a) forced surface temperature at depth 0 for every request shape, inside a feature;
    (b) outside every feature the closed-form background for every block kind."""
    import oracle
    par = dict(g=10.0, Tp=1600.0, alpha=3.5e-5, cp=1250.0, Ts=273.0, force='true')
    par.update(witness.get('constants', {}))
    q = oracle.Q(WORLD % par, work)
    try:
        if q.construct_error:
            return dict(status='error', detail=q.construct_error)
        reqs = [[[1, 0, 0]], [[1, 0, 0], [2, 0, 0]], [[2, 0, 0], [1, 0, 0]], [[4, 0, 0], [1, 0, 0], [5, 0, 0]],
                [[5, 0, 0], [1, 0, 0]], [[3, 0, 2], [1, 0, 0]], [[5, 0, 0], [3, 0, 1], [1, 0, 0], [2, 0, 0]]]
        if witness.get('request'):
            reqs.insert(0, witness['request'])
        for r in reqs:
            st, v = q.ask('p3 500e3 500e3 1000e3 0 ' + oracle.props_arg(r))
            if st != 'OK':
                continue
            off = 0
            for p in r:
                if p[0] == 1 and float.fromhex(v[off]) != par['Ts']:
                    return dict(status='violated', request=r,
                                detail='force surface temperature is set (%r K) but the request %s at depth 0 inside feature A returns temperature %r'
                                       % (par['Ts'], r, float.fromhex(v[off])))
                off += 10 * p[2] if p[0] == 3 else 3 if p[0] == 5 else 1
        # (a') outside every feature, depth 0: the forced temperature lands in the temperature slot and nowhere else
        for r in [[[5, 0, 0], [1, 0, 0]], [[3, 0, 2], [1, 0, 0]], [[5, 0, 0], [3, 0, 1], [1, 0, 0], [2, 0, 0]]]:
            st, v = q.ask('p3 -500e3 -500e3 3000e3 0 ' + oracle.props_arg(r))
            if st != 'OK':
                continue
            off = 0
            for p in r:
                w = 10 * p[2] if p[0] == 3 else 3 if p[0] == 5 else 1
                vals = [float.fromhex(x) for x in v[off:off + w]]
                exp = [par['Ts']] if p[0] == 1 else [0.0] * w
                if vals != exp:
                    return dict(status='violated', request=r, detail='forced surface temperature %r K, request %s at depth 0 outside every feature: block of entry %s is %s, expected %s' % (par['Ts'], r, p, vals, exp))
                off += w
        # (b) background outside the feature
        rnd = random.Random(search_seed or 1)
        for i in range(40):
            d = [0.0, 1.0, 5e3, 100e3, 660e3, 2890e3, -1.0, -1000.0, -25e3][i] if i < 9 else rnd.uniform(-50e3, 2890e3)
            st, v = q.ask('p3 -500e3 -500e3 %r %r 1,0,0 2,0,0 3,0,2 4,0,0 5,0,0' % (3000e3 - d, d))
            if st != 'OK':
                continue
            vals = [float.fromhex(x) for x in v]
            expT = par['Tp'] * math.exp(par['alpha'] * par['g'] * d / par['cp'])
            if d == 0.0 and par['force'] == 'true':
                expT = par['Ts']
            if abs(vals[0] - expT) > 1e-12 * abs(expT):
                return dict(status='violated', detail='background temperature at depth %r is %r, closed form %r' % (d, vals[0], expT))
            if any(x != 0.0 for x in vals[1:22]) or vals[22] != -1.0 or any(x != 0.0 for x in vals[23:26]):
                return dict(status='violated', detail='background composition/grains/tag/velocity at depth %r: %s' % (d, vals[1:]))
        return dict(status='holds', detail='forced surface temperature honoured for %d request shapes; background closed form at 40 depths' % len(reqs))
    finally:
        q.close()


def witness_from_trace(unit, failure, seed):
    return dict(request=[[1, 0, 0], [2, 0, 0]])
