import os, sys
sys.path.insert(0, os.path.join(os.path.dirname(os.path.abspath(__file__)), '..', 'lib'))
META = dict(
    title='Concurrent queries are race-free and gwb-grid output does not depend on -j',
    technique='CBMC code contracts (DFCC) on the mechanically extracted ThreadPool::parallel_for (ghost launch/join events, arbitrary-index partition argument) and on World::properties (frame condition: no member, no global written)',
    level_text='Proof for every pool size >= 1, every start <= end < 2^52 and an arbitrary index: parallel_for launches slices such that an index of '
               '[start,end) lies in exactly one of them and no index outside lies in any, each launched thread occupies its own pool slot and is '
               'joined before the call returns; the 3D/2D evaluators and properties_output_size write neither the world nor any global '
               '(frame obligations of C01: a function-local static or cache is reported there).',
    level_note='Trusted: translator, shims (std::thread launch is a ghost event; the lambda loop_function(a,b) { for k in [a,b) func(k); } is not '
               'translated), CBMC. The step from "exact partition + read-only world + join before use" to data-race freedom under the C++ memory '
               'model is a paper argument; per-index write frames of the two evaluation lambdas of gwb-grid are not under contract.',
    scope='ThreadPool::parallel_for (gwb-grid/main.cc); frame of World::properties (C01 units)',
    not_covered=['the evaluation lambdas of gwb-grid main (writes data_set[..][i] only)', 'the query path below World::properties (models, distance functions) beyond their const-ness', 'vtu output'],
    enforced_elsewhere={},
)
# frame-only units (contracts/c14_frame.c, pipeline key frame_only): Fault::properties / SubductingPlate::properties write their
# answer vector and the exception flag only
FSTUBS = ['Utilities_distance_point_from_curved_planes', 'Objects_NaturalCoordinate_get_surface_coordinates', 'Objects_NaturalCoordinate_get_depth_coordinate',
          'BoundingBox2_point_inside']
FRAME_UNITS = []
for _nm, _fam, _tu in [('fault_frame', 'Fault', 'fault'), ('slab_frame', 'SubductingPlate', 'subducting_plate')]:
    FRAME_UNITS.append(dict(
        name=_nm, enforce='Features_%s_properties' % _fam, contracts='c14_frame.c', harness='h_frame', frame_only=True,
        targets=[dict(tu='source/world_builder/features/%s.cc' % _tu, qual='WorldBuilder::Features::%s::properties' % _fam)],
        aliases={'WorldBuilder::grains::grains|const std::vector<double> &': 'grains_ctor'},
        stub=FSTUBS, nothrow=['Objects_NaturalCoordinate_get_surface_coordinates', 'Objects_NaturalCoordinate_get_depth_coordinate', 'BoundingBox2_point_inside'],
        outline_fp='all', defines={'MAXP': 1, 'WB_VEC_CAP': 2}, expect_fail=['REACHABILITY-GUARD'], timeout=900))
UNITS = [
    dict(name='parallel_for', enforce='parallel_for', contracts='c14_parallel_for.c', harness='h_parallel_for',
         targets=[dict(tu='source/gwb-grid/main.cc', qual='ThreadPool::parallel_for', sig='(lambda at %s/source/gwb-grid/main.cc' % os.environ.get('GWB_REPO', '/repo'), first_of_many=True, filter='', cname='parallel_for')],
         defines={'MAXP': 8, 'WB_VEC_CAP': 8}, defines_thorough={'MAXP': 16, 'WB_VEC_CAP': 16}, timeout_thorough=1800, expect_fail=['REACHABILITY-GUARD'],
         canaries=[(r'unsigned long n = \(\(end - start\) \+ \(\(unsigned long\)1\)\);', 'unsigned long n = ((end - start));', 'slice computed from end-start instead of end-start+1', 'harmless'),
                   (r'if \(\(i1 < end\)\)', 'if ((i1 + 1 < end))', 'last slice dropped when it has one element')],
         loops={
             ('parallel_for', 1): dict(
                 contract='__CPROVER_assigns(i, i1, i2, this_->pool, g_cnt, g_launched)\n'
                          '__CPROVER_loop_invariant(this_->pool.n == __CPROVER_loop_entry(this_->pool.n) && i < this_->pool.n && start <= i1 && i1 <= i2 && i2 <= end && slice >= 1 && (i1 < end ==> i2 > i1))\n'
                          '__CPROVER_loop_invariant(g_cnt == ((start <= g_k && g_k < i1) ? 1 : 0) && g_launched == i && g_joined == 0)\n'
                          '__CPROVER_loop_invariant(FORALL_K(LAUNCHED_BELOW, this_, i))\n'
                          '__CPROVER_decreases(this_->pool.n - i)'),
             ('parallel_for', 2): dict(
                 contract='__CPROVER_assigns(wb_i2, this_->pool, g_joined)\n'
                          '__CPROVER_loop_invariant(this_->pool.n == __CPROVER_loop_entry(this_->pool.n) && wb_i2 <= wb_r2->n && wb_r2 == &this_->pool && g_joined <= g_launched)\n'
                          '__CPROVER_loop_invariant(FORALL_K(JOINED_BELOW, this_, wb_i2))\n'
                          '__CPROVER_loop_invariant(g_joined + COUNT_JOINABLE_FROM(this_, wb_i2) == g_launched)\n'
                          '__CPROVER_decreases(wb_r2->n - wb_i2)'),
         }),
]
# FRAME_UNITS are NOT part of the check: with callee bodies (no cut paths) the frame-only query of the 600-line functions
# needs 18 min and still reports spurious failures (loop havoc forgets vector sizes) - see DESIGN 15
EXPERIMENTAL_UNITS = FRAME_UNITS
