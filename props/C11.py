import os, sys, json, random
sys.path.insert(0, os.path.join(os.path.dirname(os.path.abspath(__file__)), '..', 'lib'))
META = dict(
    title='Depth surfaces given at points are honoured, affine-exact and bounded',
    technique='CBMC code contracts (DFCC) on the mechanically extracted helper that decides whether a listed point is a polygon corner (Utilities::approx, concrete IEEE arithmetic); native replay through a world whose listed point sits on a corner',
    level_text='Proof for all doubles: approx(a,b) holds for equal finite numbers - zero included - which is what the corner/listed-point merge of '
               'depth surfaces relies on ("a value listed for a point that coincides with a polygon corner replaces that corner\'s default"), and '
               'fails for numbers a factor two apart. A failing obligation is replayed on a world with a value listed at a corner with a zero coordinate.',
    level_note='Trusted: translator, CBMC (bit-precise IEEE multiplication by the constants eps and the error factor). The merge loop itself lives in '
               'Parameters::get (rapidjson-bound) and is not under contract; the replay oracle exercises it end to end.',
    scope='Utilities::approx',
    not_covered=['the merge loop in Parameters::get<...>(depth surface) (rapidjson)', 'Delaunay triangulation, affine exactness and min/max bound of interpolated values (real arithmetic)',
                 'Surface::Surface tables, in_triangle, local_value search order'],
    enforced_elsewhere={},
)
UNITS = [
    dict(name='approx', enforce='Utilities_approx', contracts='c11_surface.c', harness='h_approx',
         targets=[dict(tu='source/world_builder/utilities.cc', qual='WorldBuilder::Utilities::approx')],
         no_inline=['Utilities_approx'], defines={'WB_VEC_CAP': 2}, expect_fail=['REACHABILITY-GUARD'], timeout=600),
]


def world(corner_value, default, listed_at):
    return json.dumps({"version": "1.1", "coordinate system": {"model": "cartesian"}, "features": [
        {"model": "continental plate", "name": "A", "coordinates": [[0, 0], [1000e3, 0], [1000e3, 1000e3], [0, 1000e3]],
         "max depth": [[default], [corner_value, [listed_at]]],
         "composition models": [{"model": "uniform", "compositions": [0]}]}]})


def native_oracle(witness, work, search_seed=None):
    """a value listed for a point that coincides with a polygon corner replaces that corner's default: close to the corner
    the feature must reach down to (about) the listed value, not to the default"""
    import oracle
    for corner in ([0, 0], [1000e3, 0], [1000e3, 1000e3], [0, 1000e3]):
        q = oracle.Q(world(100e3, 300e3, corner), work)
        try:
            if q.construct_error:
                return dict(status='error', detail=q.construct_error)
            # a point 1 km inside the corner: the interpolated max depth there is within 1% of the corner value
            px = corner[0] + (1e3 if corner[0] == 0 else -1e3)
            py = corner[1] + (1e3 if corner[1] == 0 else -1e3)
            st, v = q.ask('c3 %r %r %r %r 0' % (px, py, 1000e3 - 150e3, 150e3))
            if st == 'OK' and float.fromhex(v[0]) != 0.0:
                return dict(status='violated', detail='max depth 100 km is listed at corner %s (default 300 km), but 1 km from that corner the plate still exists at depth 150 km (composition %s): the listed value did not replace the corner default'
                                                      % (corner, float.fromhex(v[0])))
            st, v = q.ask('c3 %r %r %r %r 0' % (px, py, 1000e3 - 50e3, 50e3))
            if st == 'OK' and float.fromhex(v[0]) != 1.0:
                return dict(status='violated', detail='plate missing at depth 50 km near corner %s' % corner)
        finally:
            q.close()
    return dict(status='holds', detail='values listed at each of the four corners (two of them with a zero coordinate) replace the corner default')


def witness_from_trace(unit, failure, seed):
    return {}
