import os, sys
META = dict(
    title='Models documented by a closed-form expression return that expression',
    technique='CBMC code contracts (DFCC) on each mechanically extracted model function; documented formulas compared structurally over uninterpreted libm (congruence), selection logic and range guards bit-precisely',
    level_text='Proof per model function, for all parameter values and all inputs of the full double domain, that outside its own '
               'min/max range the incoming value is returned and inside the value is apply(operation, incoming, documented expression), '
               'including the "negative means adiabatic" sentinels. A failing obligation is replayed on the real library against an '
               'independent evaluation of the documented formula.',
    level_note='Trusted: translator, shims, CBMC; floating-point expression trees are compared by structure (same operator tree on the '
               'same operands), so an algebraically equal re-association is reported as undecided after native replay, not as a violation; '
               'Surface::local_value and NaturalCoordinate::get_surface_point are contract stubs (any value).',
    scope='get_temperature of uniform / adiabatic / linear for continental plate, oceanic plate, mantle layer, subducting plate, fault; chapman geotherm; half-space cooling model of the oceanic plate (age = ridge distance / spreading velocity); constant-age and ridge-age plate model of the oceanic plate (linear start profile, each of the 100 series terms, adiabatic sentinel, age = ridge distance / spreading velocity); McKenzie plate model of the subducting plate (R, scaled coordinates, each of the 500 alternating terms, adiabatic factor); plume uniform and Gaussian temperature; uniform raw velocity and uniform grains of all six feature families; smooth composition of the subducting plate and of the fault (uniform composition of all families: C02); the ridge look-up Utilities::calculate_ridge_distance_and_spreading behind half-space / plate cooling; parse_entries of 18 area-feature models (own depth range = extremes of the depth surfaces, shared with C07)',
    not_covered=['the documented "min distance fault center" of the fault smooth composition (unused by the code, not part of the contract)', 'tian2019 water content polynomials (the selection logic around them is under contract in C02), mass conserving slab temperature, random models (no closed form documented)', 'for the three series models (constant-age / ridge-age plate model, slab plate model) the sum is proved term by term (per-iteration lemma in the real loop + trip count), the closed statement "result = sum of 100 terms" follows by induction outside the tool'],
    enforced_elsewhere={},
)

FAMILIES = [('ContinentalPlate', 'continental_plate'), ('OceanicPlate', 'oceanic_plate'), ('MantleLayer', 'mantle_layer')]
KINDS = [('Uniform', 'uniform', 'KIND_UNIFORM'), ('Adiabatic', 'adiabatic', 'KIND_ADIABATIC'), ('Linear', 'linear', 'KIND_LINEAR')]

UNITS = []
for fam, fdir in FAMILIES:
    for kind, kfile, kdef in KINDS:
        fn = 'Features_%sModels_Temperature_%s_get_temperature' % (fam, kind)
        UNITS.append(dict(
            name='%s_T_%s' % (fdir, kfile), enforce=fn, contracts='c05_area_temperature.c',
            targets=[dict(tu='source/world_builder/features/%s_models/temperature/%s.cc' % (fdir, kfile),
                          qual='WorldBuilder::Features::%sModels::Temperature::%s::get_temperature' % (fam, kind))],
            stub=['Objects_Surface_local_value', 'Objects_NaturalCoordinate_get_surface_point'],
            nothrow=['Objects_NaturalCoordinate_get_surface_point'],
            replace=['Objects_Surface_local_value', 'Objects_NaturalCoordinate_get_surface_point'],
            outline_fp='all', defines={'FAM': fam, kdef: 1, 'WB_VEC_CAP': 2},
            expect_fail=['REACHABILITY-GUARD'], spurious_if_oracle_holds=True))
for fam, fdir, isf in [('SubductingPlate', 'subducting_plate', False), ('Fault', 'fault', True)]:
    for kind, kfile, kdef in KINDS:
        fn = 'Features_%sModels_Temperature_%s_get_temperature' % (fam, kind)
        dd = {'FAM': fam, kdef: 1, 'WB_VEC_CAP': 2}
        if isf:
            dd['IS_FAULT'] = 1
        UNITS.append(dict(
            name='%s_T_%s' % (fdir, kfile), enforce=fn, contracts='c05_slab_temperature.c', harness='h_slab_temperature',
            targets=[dict(tu='source/world_builder/features/%s_models/temperature/%s.cc' % (fdir, kfile),
                          qual='WorldBuilder::Features::%sModels::Temperature::%s::get_temperature' % (fam, kind))],
            outline_fp='all', defines=dd, expect_fail=['REACHABILITY-GUARD']))
for fam, fdir, _var in [(f, d, None) for f, d in FAMILIES] + [('Plume', 'plume', 'VARIANT_PLUME'), ('SubductingPlate', 'subducting_plate', 'VARIANT_DIST'), ('Fault', 'fault', 'VARIANT_DIST')]:
    fn = 'Features_%sModels_Velocity_UniformRaw_get_velocity' % fam
    _vd = {'FAM': fam, 'WB_VEC_CAP': 2}
    if _var:
        _vd[_var] = 1
    if fam == 'Fault':
        _vd['IS_FAULT'] = 1
    _vs = [] if _var else ['Objects_Surface_local_value', 'Objects_NaturalCoordinate_get_surface_point']
    UNITS.append(dict(
        name='%s_V_uniform_raw' % fdir, enforce=fn, contracts='c05_velocity_uniform_raw.c', harness='h_velocity',
        targets=[dict(tu='source/world_builder/features/%s_models/velocity/uniform_raw.cc' % fdir,
                      qual='WorldBuilder::Features::%sModels::Velocity::UniformRaw::get_velocity' % fam)],
        stub=_vs, nothrow=['Objects_NaturalCoordinate_get_surface_point'] if _vs else [], replace=_vs,
        outline_fp='all', defines=_vd, expect_fail=['REACHABILITY-GUARD']))
UNITS.append(dict(
    name='plume_T_uniform', enforce='Features_PlumeModels_Temperature_Uniform_get_temperature', contracts='c05_plume_temperature.c', harness='h_plume_uniform',
    targets=[dict(tu='source/world_builder/features/plume_models/temperature/uniform.cc', qual='WorldBuilder::Features::PlumeModels::Temperature::Uniform::get_temperature')],
    outline_fp='all', defines={'WB_VEC_CAP': 2}, expect_fail=['REACHABILITY-GUARD']))
UNITS.append(dict(
    name='continental_plate_T_chapman', enforce='Features_ContinentalPlateModels_Temperature_Chapman_get_temperature', contracts='c05_area_temperature.c',
    targets=[dict(tu='source/world_builder/features/continental_plate_models/temperature/chapman.cc',
                  qual='WorldBuilder::Features::ContinentalPlateModels::Temperature::Chapman::get_temperature')],
    stub=['Objects_Surface_local_value', 'Objects_NaturalCoordinate_get_surface_point'], nothrow=['Objects_NaturalCoordinate_get_surface_point'],
    replace=['Objects_Surface_local_value', 'Objects_NaturalCoordinate_get_surface_point'],
    outline_fp='all', defines={'FAM': 'ContinentalPlate', 'KIND_CHAPMAN': 1, 'WB_VEC_CAP': 2},
    expect_fail=['REACHABILITY-GUARD'], spurious_if_oracle_holds=True))



# plate model constant age (oceanic plate): range guard, sentinel, and the documented series term by term
_surf = ['Objects_Surface_local_value', 'Objects_NaturalCoordinate_get_surface_point']
UNITS.append(dict(
    name='oceanic_plate_T_plate_constant_age', enforce='PCA', contracts='c05_plate_constant_age.c', harness='h_plate_constant_age',
    targets=[dict(tu='source/world_builder/features/oceanic_plate_models/temperature/plate_model_constant_age.cc',
                  qual='WorldBuilder::Features::OceanicPlateModels::Temperature::PlateModelConstantAge::get_temperature', cname='PCA')],
    stub=_surf, nothrow=['Objects_NaturalCoordinate_get_surface_point'], replace=_surf,
    outline_fp='all', defines={'WB_VEC_CAP': 2}, expect_fail=['REACHABILITY-GUARD'],
    inserts=[(r'int i = 1;', 'PCA_INIT'),
             (r'temperature = E_h[0-9a-f]+\(temperature, ', 'PCA_STEP'),
             (r'return Features_FeatureUtilities_apply_operation\(this_->operation, temperature_, temperature\);', 'PCA_FINAL')],
    canaries=[(r'\(i < \(sommation_number \+ 1\)\)', '(i < sommation_number)', 'last term of the series dropped'),
              (r'\(\(double\)i\), G_Consts_PI, depth, this_->max_depth', '((double)i), G_Consts_PI, depth, max_depth_local', 'sine argument scaled by the local instead of the global max depth'),
              (r'\(bottom_temperature_local < \(\(double\)0\)\)', '(bottom_temperature_local <= ((double)0))', 'bottom temperature 0 treated as the adiabatic sentinel')],
    loops={('PCA', 1): dict(
        contract='__CPROVER_assigns(i, temperature, g_di, g_expect, g_iters)\n'
                 '__CPROVER_loop_invariant(1 <= i && i <= 101 && g_iters == i - 1 && SAMEL(temperature, g_expect))\n'
                 '__CPROVER_decreases(101 - i)')}))


# plate model (oceanic plate, ridge age): same scheme as the constant-age model, age from the ridge look-up
_PMSTUBS = ['Objects_Surface_local_value', 'Objects_NaturalCoordinate_get_surface_point', 'Utilities_calculate_ridge_distance_and_spreading', 'Objects_NaturalCoordinate_ctor__Point_3_CoordinateSystems_Interf']
UNITS.append(dict(
    name='oceanic_plate_T_plate_model', enforce='PM', contracts='c05_plate_model.c', harness='h_plate_model',
    targets=[dict(tu='source/world_builder/features/oceanic_plate_models/temperature/plate_model.cc',
                  qual='WorldBuilder::Features::OceanicPlateModels::Temperature::PlateModel::get_temperature', cname='PM')],
    stub=_PMSTUBS, nothrow=['Objects_NaturalCoordinate_get_surface_point'], replace=_PMSTUBS,
    outline_fp='all', defines={'WB_VEC_CAP': 2, 'WB_CAP_vec_double': 4}, expect_fail=['REACHABILITY-GUARD'], timeout=600,
    inserts=[(r'int i = 1;', 'PM_INIT'),
             (r'temperature = E_h[0-9a-f]+\(temperature, ', 'PM_STEP'),
             (r'return Features_FeatureUtilities_apply_operation\(this_->operation, temperature_, temperature\);', 'PM_FINAL')],
    canaries=[(r'\(i < \(summation_number \+ 1\)\)', '(i < summation_number)', 'last term of the series dropped'),
              (r'double age = E_div_a_a\(ridge_parameters\.data\[wb_idx\(\(\(unsigned long\)1\)', 'double age = E_div_a_a(ridge_parameters.data[wb_idx(((unsigned long)2)', 'age from the subducting velocity slot instead of the ridge distance')],
    loops={('PM', 1): dict(
        contract='__CPROVER_assigns(i, temperature, g_di, g_expect, g_iters)\n'
                 '__CPROVER_loop_invariant(1 <= i && i <= 101 && g_iters == i - 1 && SAMEL(temperature, g_expect))\n'
                 '__CPROVER_decreases(101 - i)')}))


# plate model of the subducting plate (McKenzie 1970)
UNITS.append(dict(
    name='subducting_plate_T_plate_model', enforce='SPM', contracts='c05_slab_plate_model.c', harness='h_slab_plate_model',
    targets=[dict(tu='source/world_builder/features/subducting_plate_models/temperature/plate_model.cc',
                  qual='WorldBuilder::Features::SubductingPlateModels::Temperature::PlateModel::get_temperature', cname='SPM')],
    outline_fp='all', defines={'WB_VEC_CAP': 2}, expect_fail=['REACHABILITY-GUARD'],
    inserts=[(r'int i = 1;', 'SPM_INIT'),
             (r'sum = E_h[0-9a-f]+\(sum, ', 'SPM_STEP'),
             (r'double temperature = E_mul_a_add_a_mul_mul_', 'SPM_FINAL')],
    canaries=[(r'\(i <= n_sum\)', '(i < n_sum)', 'last term of the series dropped'),
              (r'wb_pow\(\(\(-0x1\.0000000000000p\+0\)\), i\)', 'wb_pow(((-0x1.0000000000000p+0)), i + 1)', 'alternating sign shifted by one term')],
    loops={('SPM', 1): dict(
        contract='__CPROVER_assigns(i, sum, g_di, g_ii, g_pw, g_expect, g_iters)\n'
                 '__CPROVER_loop_invariant(1 <= i && i <= 501 && g_iters == i - 1 && SAMEL(sum, g_expect))\n'
                 '__CPROVER_decreases(501 - i)')}))

# ----------------------------------------------------------------------------- native replay oracle
import math, random, json
sys.path.insert(0, os.path.join(os.path.dirname(os.path.abspath(__file__)), '..', 'lib'))

FEATURE_NAME = {'continental_plate': 'continental plate', 'oceanic_plate': 'oceanic plate', 'mantle_layer': 'mantle layer'}
G, TP, ALPHA, CP = 10.0, 1600.0, 3.5e-5, 1250.0


# the ridge look-up behind the half-space and plate cooling models (and the mass-conserving slab)
RFN = 'Utilities_calculate_ridge_distance_and_spreading'
UNITS.append(dict(
    name='ridge_distance', enforce=RFN, contracts='c05_ridge.c', harness='h_ridge',
    targets=[dict(tu='source/world_builder/utilities.cc', qual='WorldBuilder::Utilities::calculate_ridge_distance_and_spreading')],
    stub=['CoordinateSystems_Interface_distance_between_points_at_same_depth', 'CoordinateSystems_Interface_natural_coordinate_system'],
    nothrow=['CoordinateSystems_Interface_distance_between_points_at_same_depth', 'CoordinateSystems_Interface_natural_coordinate_system'],
    outline_fp='all', unwind_complete=4, defines={'WB_VEC_CAP': 3, 'WB_CAP_vec_double': 4}, expect_fail=['REACHABILITY-GUARD'], timeout=900,
    inserts=[(r'double compare_distance = compare_distance1;', 'RIDGE_LEMMA'),
             (r'struct vec_double result = vec_double_new_empty\(\);', 'RIDGE_FINAL'),
             (r'\{\n\s*unsigned int i_coordinate = ', 'RIDGE_NSEG')],
    loops={(RFN, 1): dict(contract='__CPROVER_assigns(relevant_ridge)\n'
                                   '__CPROVER_loop_invariant((unsigned long)relevant_ridge <= mid_oceanic_ridges.n - 1ul)\n'
                                   '__CPROVER_decreases((mid_oceanic_ridges.n - 1ul) - (unsigned long)relevant_ridge)'),
           (RFN, 2): dict(contract='__CPROVER_assigns(i_coordinate, distance_ridge, spreading_velocity_at_ridge, subducting_velocity_at_trench, ridge_migration_time, wb_thrown, g_seen, g_cdk1, g_cdk2)\n'
                                   '__CPROVER_loop_invariant((unsigned long)i_coordinate <= g_nseg && g_nseg == mid_oceanic_ridges.data[relevant_ridge].n - 1ul && (unsigned long)relevant_ridge < mid_oceanic_ridges.n && !wb_thrown)\n'
                                   '__CPROVER_loop_invariant(g_seen == (g_k < i_coordinate) && distance_ridge >= 0.0)\n'
                                   '__CPROVER_loop_invariant(g_seen ==> (distance_ridge <= g_cdk1 && distance_ridge <= g_cdk2))\n'
                                   '__CPROVER_decreases(g_nseg - (unsigned long)i_coordinate)')}))

# smooth composition of the subducting plate
_sfn = 'Features_SubductingPlateModels_Composition_Smooth_get_composition'
UNITS.append(dict(
    name='subducting_plate_C_smooth', enforce=_sfn, contracts='c05_slab_smooth.c', harness='h_slab_smooth',
    targets=[dict(tu='source/world_builder/features/subducting_plate_models/composition/smooth.cc',
                  qual='WorldBuilder::Features::SubductingPlateModels::Composition::Smooth::get_composition')],
    defines={'MAXP': 4, 'WB_VEC_CAP': 2, 'WB_CAP_vec_uint': 4, 'WB_CAP_vec_double': 4}, defines_thorough={'MAXP': 16, 'WB_CAP_vec_uint': 16, 'WB_CAP_vec_double': 16},
    expect_fail=['REACHABILITY-GUARD'], outline_fp='all',
    loops={(_sfn, 1): dict(contract='__CPROVER_assigns(i)\n'
                                    '__CPROVER_loop_invariant(i <= this_->compositions.n && (g_listed ==> i <= g_first))\n'
                                    '__CPROVER_decreases(this_->compositions.n - i)')}))

# uniform grains model of the area features (also what C15 says about fixed / normalised grain sizes)
for _fam, _fdir, _var in [('ContinentalPlate', 'continental_plate', None), ('OceanicPlate', 'oceanic_plate', None), ('MantleLayer', 'mantle_layer', None),
                          ('Plume', 'plume', 'VARIANT_PLUME'), ('SubductingPlate', 'subducting_plate', 'VARIANT_DIST'), ('Fault', 'fault', 'VARIANT_DIST')]:
    _gfn = 'Features_%sModels_Grains_Uniform_get_grains' % _fam
    _gd = {'FAM': _fam, 'MAXP': 4, 'WB_VEC_CAP': 2, 'WB_CAP_vec_uint': 4, 'WB_CAP_vec_double': 4, 'WB_CAP_vec_arr_arr_double_3_3': 4}
    if _var:
        _gd[_var] = 1
    if _fam == 'Fault':
        _gd['IS_FAULT'] = 1
    _gs = [] if _var else ['Objects_Surface_local_value', 'Objects_NaturalCoordinate_get_surface_point']
    UNITS.append(dict(
        name='%s_G_uniform' % _fdir, enforce=_gfn, contracts='c05_grains_uniform.c', harness='h_grains_uniform',
        targets=[dict(tu='source/world_builder/features/%s_models/grains/uniform.cc' % _fdir,
                      qual='WorldBuilder::Features::%sModels::Grains::Uniform::get_grains' % _fam)],
        stub=_gs, nothrow=['Objects_NaturalCoordinate_get_surface_point'] if _gs else [], replace=_gs,
        defines=_gd,
        expect_fail=['REACHABILITY-GUARD'], outline_fp='all',
        loops={(_gfn, 1): dict(contract='__CPROVER_assigns(i)\n'
                                        '__CPROVER_loop_invariant(i <= this_->compositions.n && (g_listed ==> i <= g_first))\n'
                                        '__CPROVER_decreases(this_->compositions.n - i)')}))

# Gaussian plume temperature
UNITS.append(dict(
    name='plume_T_gaussian', enforce='Features_PlumeModels_Temperature_Gaussian_get_temperature', contracts='c05_plume_gaussian.c', harness='h_plume_gaussian',
    targets=[dict(tu='source/world_builder/features/plume_models/temperature/gaussian.cc', qual='WorldBuilder::Features::PlumeModels::Temperature::Gaussian::get_temperature')],
    replace=['wb_upper_bound_idx'], outline_fp='all', defines={'WB_VEC_CAP': 2, 'WB_CAP_vec_double': 4}, defines_thorough={'WB_CAP_vec_double': 12}, expect_fail=['REACHABILITY-GUARD'],
    canaries=[(r'pP1_a\(center_temperature_local, relative_distance_from_center,', 'pP1_a(center_temperature_local, depth,', 'gaussian decays with depth instead of the distance from the centre'),
              (r'if \(\(center_temperature_local < \(\(double\)0\)\)\)', 'if ((center_temperature_local <= ((double)0)))', 'centreline temperature 0 K treated as the adiabatic sentinel')]))

# half-space cooling model of the oceanic plate (age = ridge distance / spreading velocity)
_HSTUBS = ['Objects_Surface_local_value', 'Objects_NaturalCoordinate_get_surface_point', 'Utilities_calculate_ridge_distance_and_spreading', 'Objects_NaturalCoordinate_ctor__Point_3_CoordinateSystems_Interf']
UNITS.append(dict(
    name='oceanic_plate_T_half_space', enforce='Features_OceanicPlateModels_Temperature_HalfSpaceModel_get_temperature', contracts='c05_half_space.c', harness='h_half_space',
    targets=[dict(tu='source/world_builder/features/oceanic_plate_models/temperature/half_space_model.cc',
                  qual='WorldBuilder::Features::OceanicPlateModels::Temperature::HalfSpaceModel::get_temperature')],
    stub=_HSTUBS, nothrow=['Objects_NaturalCoordinate_get_surface_point'], replace=_HSTUBS,
    outline_fp='all', defines={'WB_VEC_CAP': 2, 'WB_CAP_vec_double': 4}, expect_fail=['REACHABILITY-GUARD'], timeout=600,
    canaries=[(r'double age = E_div_a_a\(ridge_parameters\.data\[wb_idx\(\(\(unsigned long\)1\)', 'double age = E_div_a_a(ridge_parameters.data[wb_idx(((unsigned long)2)', 'age from the subducting velocity slot instead of the ridge distance'),
              (r'\(age > \(\(double\)0\)\)', '(age >= ((double)0))', 'age 0 treated as cooled'),
              (r'vec_double_push\(&(wb_t\d+), \(\(double\)0\)\)', r'vec_double_push(&\1, ((double)1))', 'ridge look-up asked with subducting velocity 1')]))

# smooth composition of the fault (blend of the documented center / side fractions)
_ffn = 'Features_FaultModels_Composition_Smooth_get_composition'
UNITS.append(dict(
    name='fault_C_smooth', enforce=_ffn, contracts='c05_fault_smooth.c', harness='h_fault_smooth',
    targets=[dict(tu='source/world_builder/features/fault_models/composition/smooth.cc',
                  qual='WorldBuilder::Features::FaultModels::Composition::Smooth::get_composition')],
    defines={'MAXP': 4, 'WB_VEC_CAP': 2, 'WB_CAP_vec_uint': 4, 'WB_CAP_vec_double': 4}, defines_thorough={'MAXP': 16, 'WB_CAP_vec_uint': 16, 'WB_CAP_vec_double': 16},
    expect_fail=['REACHABILITY-GUARD'], outline_fp='all',
    loops={(_ffn, 1): dict(contract='__CPROVER_assigns(i)\n'
                                    '__CPROVER_loop_invariant(i <= this_->compositions.n && (g_listed ==> i <= g_first))\n'
                                    '__CPROVER_decreases(this_->compositions.n - i)')}))

# depth-range wiring of the area-feature models (parse_entries: global bounds = extremes of the depth surfaces): the C07 units, run here too
# because "a model applies only inside its own min/max range" depends on it
import importlib.util as _ilu5
_s7 = _ilu5.spec_from_file_location('c07', os.path.join(os.path.dirname(os.path.abspath(__file__)), 'C07.py'))
_c07 = _ilu5.module_from_spec(_s7)
_s7.loader.exec_module(_c07)
UNITS += [u for u in _c07.UNITS if u['name'].endswith('_bounds')]

KAPPA = 0.804e-6


def adiab(z, tp=TP, alpha=ALPHA, cp=CP):
    return tp * math.exp(alpha * G * z / cp)


def documented(kind, m, fmin, fmax, depth, old):
    """independent evaluation of the documentation (doc/world_builder_declarations_open.md + property statement)"""
    if not (m['min depth'] <= depth <= m['max depth']):
        return old
    if kind == 'uniform':
        new = m['temperature']
    elif kind == 'adiabatic':
        new = adiab(depth)
    elif kind == 'chapman':
        zt = max(fmin, m['min depth'])
        tt = m['top temperature'] if m['top temperature'] >= 0 else adiab(zt)
        k, q, A = m['thermal conductivity'], m['top heat flux'], m['heat generation per unit volume']
        new = tt + (q / k) * (depth - zt) - A / (2 * k) * (depth - zt) ** 2
    elif kind == 'plate model constant age':
        # Fowler (1990) ch. 7 plate model with a fixed age: linear profile plus 100 terms of the cooling series
        tt, L = m['top temperature'], m.get('L', m['max depth'])   # L: the model's global max depth (deepest point of its max-depth surface)
        tb = m['bottom temperature'] if m['bottom temperature'] >= 0 else adiab(depth)
        age = m['plate age'] * 31557600.0
        new = tt + (tb - tt) * (depth / L)
        for i in range(1, 101):
            new += (tb - tt) * ((2 / (i * math.pi)) * math.sin(i * math.pi * depth / L) * math.exp(-1.0 * i * i * math.pi * math.pi * KAPPA * age / (L * L)))
    elif kind == 'linear':
        zt, zb = max(fmin, m['min depth']), min(fmax, m['max depth'])
        tt = m['top temperature'] if m['top temperature'] >= 0 else adiab(zt)
        tb = m['bottom temperature'] if m['bottom temperature'] >= 0 else adiab(zb)
        new = tt if zb - zt < 10 * 2.2e-16 else tt + (depth - zt) * (tb - tt) / (zb - zt)
    op = m.get('operation', 'replace')
    return new if op.startswith('replace') else old + new if op == 'add' else old - new


def world_text(fdir, fmin, fmax, models):
    return json.dumps({
        "version": "1.1", "coordinate system": {"model": "cartesian"}, "gravity model": {"model": "uniform", "magnitude": G},
        "potential mantle temperature": TP, "thermal expansion coefficient": ALPHA, "specific heat": CP, "thermal diffusivity": KAPPA,
        "features": [{"model": FEATURE_NAME[fdir], "name": "F", "min depth": fmin, "max depth": fmax,
                      "coordinates": [[0, 0], [1e6, 0], [1e6, 1e6], [0, 1e6]], "temperature models": models}]})


def one_case(fdir, kind, m, fmin, fmax, depths, work, json_min_depth=None, json_max_depth=None):
    """json_min_depth: how "min depth" is written in the file when it is a surface (values at points); m['min depth'] is then
    its value in the queried column (500 km, 500 km), which is a listed point"""
    import oracle
    base = {"model": "uniform", "temperature": 500.0}
    mm = dict(m)
    mm['model'] = kind
    if json_min_depth is not None:
        mm['min depth'] = json_min_depth
    if json_max_depth is not None:
        mm['max depth'] = json_max_depth
    mm.pop('L', None)
    q = oracle.Q(world_text(fdir, fmin, fmax, [base, mm]), work)
    try:
        if q.construct_error:
            return dict(status='error', detail='world not constructed: %s' % q.construct_error)
        for d in depths:
            if not (fmin <= d <= fmax):
                continue
            st, v = q.ask('t3 500e3 500e3 %r %r' % (2000e3 - d, d))
            if st != 'OK':
                continue
            got = float.fromhex(v[0])
            exp = documented(kind, m, fmin, fmax, d, 500.0)
            if abs(got - exp) > 1e-9 * max(1.0, abs(exp)):
                return dict(status='violated', family=fdir, model=mm, feature_min_depth=fmin, feature_max_depth=fmax, depth=d,
                            detail='%s %s temperature model %s in a feature from %r to %r m: at depth %r the library returns %r, the documented expression gives %r'
                                   % (FEATURE_NAME[fdir], kind, json.dumps(mm), fmin, fmax, d, got, exp))
    finally:
        q.close()
    return None


def fault_oracle(kind, work, rnd):
    """vertical fault along the y axis (dip 90 degrees): the distance from the fault centre plane of a point (x, y) is |x|;
    a model with its own [min, max] distance range must only act on points whose |x| lies in that range"""
    import oracle
    for trial in range(6):
        dmin = rnd.choice([0.0, 5e3])
        dmax = rnd.choice([10e3, 20e3])
        m = {"model": kind, "min distance fault center": dmin, "max distance fault center": dmax}
        if kind == 'uniform':
            m["temperature"] = 1234.5
        if kind == 'linear':
            m["center temperature"], m["side temperature"] = 1000.0, 400.0
        text = json.dumps({"version": "1.1", "coordinate system": {"model": "cartesian"}, "gravity model": {"model": "uniform", "magnitude": G},
                           "potential mantle temperature": TP, "thermal expansion coefficient": ALPHA, "specific heat": CP, "features": [
            {"model": "fault", "name": "F", "min depth": 0, "max depth": 400e3, "coordinates": [[0, -500e3], [0, 500e3]], "dip point": [1e6, 0],
             "segments": [{"length": 300e3, "thickness": [100e3], "angle": [90]}],
             "temperature models": [{"model": "uniform", "temperature": 500.0}, m]}]})
        q = oracle.Q(text, work)
        try:
            if q.construct_error:
                return dict(status='error', detail='world not constructed: %s' % q.construct_error)
            for _ in range(25):
                x = rnd.choice([-1, 1]) * rnd.choice([1e3, 7e3, 15e3, 30e3, 45e3])
                d = rnd.choice([2e3, 5e3, 8e3, 15e3, 50e3, 150e3])
                st, v = q.ask('t3 %r %r %r %r' % (x, 0.0, 1000e3 - d, d))
                if st != 'OK':
                    continue
                got = float.fromhex(v[0])
                dist = abs(x)
                if not (dmin <= dist <= dmax):
                    exp = 500.0
                elif kind == 'uniform':
                    exp = 1234.5
                elif kind == 'adiabatic':
                    exp = adiab(d)
                else:
                    exp = 1000.0 + (dist - dmin) * (400.0 - 1000.0) / (dmax - dmin)
                if abs(got - exp) > 1e-6 * max(1.0, abs(exp)):
                    return dict(status='violated', detail='vertical fault (thickness 100 km) with temperature models [uniform 500 K, %s]: at distance %r m from the fault centre, depth %r m the library returns %r K, the documented behaviour gives %r K'
                                                          % (json.dumps(m), dist, d, got, exp))
        finally:
            q.close()
    return dict(status='holds', detail='6 vertical-fault worlds x 25 points agree with the documented %s model' % kind)


def ridge_oracle(work):
    """calculate_ridge_distance_and_spreading of the real library against the clamp/interpolate rule, for the query point
    and for its 360-degree copy (spherical worlds: the copy is the closer one across the date line)"""
    import oracle, subprocess
    exe, info = oracle.tool('ridge')
    os.makedirs(work, exist_ok=True)
    wb = os.path.join(work, 'ridge_sph.wb')
    open(wb, 'w').write('{"version":"1.1", "coordinate system":{"model":"spherical", "depth method":"starting point"}, "features":[]}')
    D = math.pi / 180
    R0 = 6371000.0

    def cart(lon, lat):
        return (R0 * math.cos(lat) * math.cos(lon), R0 * math.cos(lat) * math.sin(lon), R0 * math.sin(lat))
    cases = []
    # ridge 170E -> 175E on the equator; spreading velocity 0.02 -> 0.04 m/yr, subducting velocity 0.06 -> 0.08 m/yr
    ridge = [(170 * D, 0.0, 0.02, 0.06), (175 * D, 0.0, 0.04, 0.08)]
    for lon in [-178, -170, 177, 172.5, 160, 171]:
        cases.append((lon * D, 0.0, ridge))
    # ridge across the date line, 175E -> 185E: western-hemisphere queries reach it through their +360 degree copy
    ridge2 = [(175 * D, 0.0, 0.02, 0.06), (185 * D, 0.0, 0.04, 0.08)]
    for lon in [-178, -176.5, 179, 176, -170]:
        cases.append((lon * D, 0.0, ridge2))
    lines = []
    for lon, lat, rg in cases:
        x, y, z = cart(lon, lat)
        lines.append('q %r %r %r %d ' % (x, y, z, len(rg)) + ' '.join('%r %r %r %r' % t for t in rg))
    r = subprocess.run([exe, wb], input='\n'.join(lines) + '\n', capture_output=True, text=True, cwd=work)
    out = r.stdout.strip().split('\n')
    if not out or out[0] != 'OK':
        return dict(status='error', detail='ridge tool: %s' % (out[:1],))
    YEAR = 60.0 * 60.0 * 24.0 * 365.25
    for (lon, lat, rg), ans in zip(cases, out[1:]):
        if ans.startswith('EXC'):
            return dict(status='error', detail=ans)
        vs, dist, vt, mt = [float.fromhex(t) for t in ans.split()]
        # expected: nearest point of the segment (equator: longitude clamp), both velocities interpolated at the same fraction
        l0, l1 = rg[0][0], rg[1][0]
        best = None
        for cand in (lon, lon + 2 * math.pi, lon - 2 * math.pi):
            t = min(1.0, max(0.0, (cand - l0) / (l1 - l0)))
            foot = l0 + t * (l1 - l0)
            dd = abs((foot - lon + math.pi) % (2 * math.pi) - math.pi) * R0
            if best is None or dd < best[0] - 1e-6:
                best = (dd, t)
        t = best[1]
        es, eu = rg[0][2] + (rg[1][2] - rg[0][2]) * t, rg[0][3] + (rg[1][3] - rg[0][3]) * t
        if abs(vs * YEAR - es) > 1e-9 or abs(vt * YEAR - eu) > 1e-9 or abs(dist - best[0]) > 1.0:
            return dict(status='violated', input=dict(query_lon_deg=lon / D, ridge=[[a / D, b / D, c, d] for a, b, c, d in rg]),
                        detail='ridge %gE..%gE (spreading 0.02..0.04, subducting 0.06..0.08 m/yr), query at longitude %g: expected nearest ridge point at fraction %g '
                               '(distance %.0f m, spreading %g, subducting %g m/yr) but the library reports distance %.0f m, spreading %g, subducting %g m/yr'
                               % (l0 / D, l1 / D, lon / D, t, best[0], es, eu, dist, vs * YEAR, vt * YEAR))
    return dict(status='holds', detail='%d queries around a ridge near the date line agree with the clamp/interpolate rule' % len(cases))


def fault_smooth_oracle(work):
    """fault smooth composition: the documented center fraction at the centre, the documented side fraction at and beyond the side distance"""
    import oracle
    for cen, side in ((1.0, 0.0), (1.0, 0.25), (0.2, 0.8)):
        sd = 40e3
        text = json.dumps({"version": "1.1", "coordinate system": {"model": "cartesian"}, "features": [
            {"model": "fault", "name": "F", "min depth": 0, "max depth": 400e3, "coordinates": [[0, -500e3], [0, 500e3]], "dip point": [1e6, 0],
             "segments": [{"length": 300e3, "thickness": [100e3], "angle": [90]}],
             "composition models": [{"model": "smooth", "compositions": [0], "center fractions": [cen], "side fractions": [side], "side distance fault center": sd}]}]})
        q = oracle.Q(text, work, name='fault_smooth')
        try:
            if q.construct_error:
                return dict(status='error', detail=q.construct_error)
            for x in (0.0, 1.0, -10e3, 10e3, 30e3, -39e3, 45e3):
                st, v = q.ask('c3 %r 0 %r %r 0' % (x, 1000e3 - 50e3, 50e3))
                if st != 'OK':
                    continue
                got = float.fromhex(v[0])
                S = (1 - math.tanh(10 * (abs(x) - sd / 2) / sd)) / 2
                exp = side + (cen - side) * S
                if abs(got - exp) > 1e-6:
                    return dict(status='violated', input={'center fractions': [cen], 'side fractions': [side], 'side distance fault center': sd, 'distance': abs(x)},
                                detail='fault smooth composition with center fraction %r, side fraction %r, side distance %g km: %g km from the fault centre the library returns %r, '
                                       'the documented blend of the two fractions gives %r (centre: the center fraction, side distance and beyond: the side fraction)' % (cen, side, sd / 1e3, abs(x) / 1e3, got, exp))
        finally:
            q.close()
    return dict(status='holds', detail='3 fault worlds x 7 distances agree with side + (center - side)*S')


def bounds_oracle(work):
    """models with laterally varying depth range: a point inside the local range is painted even when it lies outside the range
    the model has elsewhere (the global pre-test bounds must be the extremes of the depth surfaces)"""
    import oracle
    for fam in FEATURE_NAME.values():
        rng = {"min depth": [[60e3], [5e3, [[500e3, 500e3]]]], "max depth": [[100e3], [300e3, [[500e3, 500e3]]]]}
        feat = {"model": fam, "name": "F", "min depth": 0, "max depth": 400e3, "coordinates": [[0, 0], [1e6, 0], [1e6, 1e6], [0, 1e6]],
                "temperature models": [dict({"model": "uniform", "temperature": 1234.0}, **rng)],
                "composition models": [dict({"model": "uniform", "compositions": [0]}, **rng)],
                "velocity models": [dict({"model": "uniform raw", "velocity": [1, 2, 3]}, **rng)]}
        q = oracle.Q(json.dumps({"version": "1.1", "coordinate system": {"model": "cartesian"}, "features": [feat]}), work, name='bounds')
        try:
            if q.construct_error:
                return dict(status='error', detail=q.construct_error)
            # at the listed point the local range is 5..300 km although every other node says 60..100 km
            for d in (20e3, 80e3, 200e3, 290e3):
                st, v = q.ask('p3 500e3 500e3 %r %r 1,0,0 2,0,0 5,0,0' % (1000e3 - d, d))
                if st != 'OK':
                    continue
                got = [float.fromhex(x) for x in v]
                if got != [1234.0, 1.0, 1.0, 2.0, 3.0]:
                    return dict(status='violated', input=dict(feature=feat, point=[500e3, 500e3, d]),
                                detail='%s with models whose depth range is 5..300 km at the listed point (500 km, 500 km) and 60..100 km at the corners: at depth %g km in that column '
                                       '[temperature, composition, velocity] = %s, expected [1234, 1, 1, 2, 3]' % (fam, d / 1e3, got))
        finally:
            q.close()
    return dict(status='holds', detail='uniform temperature / composition / velocity with laterally varying depth range apply inside their local range, 3 families')


def native_oracle(witness, work, search_seed=None):
    if witness.get('unit', '').endswith('_bounds'):
        return bounds_oracle(work)
    if witness.get('unit') == 'ridge_distance':
        return ridge_oracle(work)
    if witness.get('unit') == 'fault_C_smooth':
        return fault_smooth_oracle(work)
    if witness.get('unit') == 'oceanic_plate_T_plate_constant_age':
        n = 0
        for age in (1e6, 40e6, 120e6):
            for tb in (1600.0, -1):
                for op in ('replace', 'add'):
                    m = {'min depth': 0.0, 'max depth': 95e3, 'top temperature': 273.15, 'bottom temperature': tb, 'plate age': age / 1.0, 'operation': op}
                    m['plate age'] = age
                    r = one_case('oceanic_plate', 'plate model constant age', m, 0.0, 95e3, [0.0, 1e3, 10e3, 47.5e3, 80e3, 95e3], work)
                    n += 1
                    if r is not None:
                        return r
        # laterally varying model bottom: the range test uses the bottom in the queried column, the series the model's global max depth
        m = {'min depth': 0.0, 'max depth': 60e3, 'L': 95e3, 'top temperature': 273.15, 'bottom temperature': 1600.0, 'plate age': 40e6, 'operation': 'replace'}
        r = one_case('oceanic_plate', 'plate model constant age', m, 0.0, 95e3, [1e3, 10e3, 30e3, 59e3, 60e3, 70e3], work,
                     json_max_depth=[[95e3], [60e3, [[500e3, 500e3]]]])
        n += 1
        if r is not None:
            return r
        return dict(status='holds', detail='%d oceanic plates with a constant-age plate model agree with the 100-term series' % n)
    if witness.get('unit'):
        return dict(status='no-native-oracle', detail='no replay oracle for unit %s' % witness['unit'])
    fdir, kind = witness.get('family', 'continental_plate'), witness.get('kind', 'linear')
    if fdir == 'fault':
        return fault_oracle(kind, work, random.Random(search_seed if search_seed is not None else 1))
    if fdir == 'subducting_plate':
        return dict(status='no-native-oracle', detail='no replay oracle for slab models yet')
    rnd = random.Random(search_seed if search_seed is not None else 1)
    cases = []
    if witness.get('model'):
        cases.append((witness['model'], witness['feature_min_depth'], witness['feature_max_depth'], [witness['depth']]))
    for i in range(12 if search_seed is not None else 0):
        fmin = rnd.choice([0.0, 20e3, 50e3])
        fmax = fmin + rnd.choice([50e3, 100e3, 200e3])
        mmin = rnd.choice([0.0, 0.0, 10e3, 60e3])
        mmax = mmin + rnd.choice([40e3, 150e3, 400e3])
        m = {'min depth': mmin, 'max depth': mmax, 'operation': rnd.choice(['replace', 'add', 'subtract'])}
        if kind == 'uniform':
            m['temperature'] = rnd.choice([300.0, 1234.5])
        if kind == 'chapman':
            m['top temperature'] = rnd.choice([293.15, -1, -1])
            m['thermal conductivity'], m['top heat flux'], m['heat generation per unit volume'] = 2.5, 0.055, 0.9e-6
        if kind == 'linear':
            m['top temperature'] = rnd.choice([300.0, -1, 0.0])
            m['bottom temperature'] = rnd.choice([1300.0, -1])
        ds = [fmin, fmax, mmin, mmax, 0.5 * (fmin + fmax), fmin + 0.25 * (fmax - fmin), rnd.uniform(fmin, fmax)]
        cases.append((m, fmin, fmax, ds))
    for m, fmin, fmax, ds in cases:
        r = one_case(fdir, kind, m, fmin, fmax, ds, work)
        if r is not None:
            return r
    if kind in ('chapman', 'linear') and fdir in FEATURE_NAME:
        # laterally varying model top: the documented expression is measured from the top in the queried column
        # (a listed point of the surface), not from the shallowest top anywhere
        for local_top, shallowest in [(30e3, 10e3), (20e3, 5e3)]:
            m = {'min depth': local_top, 'max depth': 150e3, 'operation': 'replace'}
            if kind == 'chapman':
                m.update({'top temperature': 293.15, 'thermal conductivity': 2.5, 'top heat flux': 0.055, 'heat generation per unit volume': 0.9e-6})
            else:
                m.update({'top temperature': 300.0, 'bottom temperature': 1300.0})
            r = one_case(fdir, kind, m, 0.0, 200e3, [local_top, local_top + 1e3, local_top + 20e3, 100e3], work,
                         json_min_depth=[[shallowest], [local_top, [[500e3, 500e3]]]])
            if r is not None:
                return r
    return dict(status='holds', detail='%d worlds of family %s, model %s agree with the documented expression' % (len(cases), fdir, kind))


def witness_from_trace(unit, failure, seed):
    if '_T_' not in unit['name'] or unit['name'].endswith(('_T_plate_constant_age', '_T_plate_model')):
        return dict(unit=unit['name'])
    fdir, kind = unit['name'].split('_T_')
    return dict(family=fdir, kind=kind)
