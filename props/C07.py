import os, sys
META = dict(
    title='Acceleration shortcuts never change an answer',
    technique='CBMC code contracts (DFCC) on the mechanically extracted BoundingBox<2> tests (concrete IEEE arithmetic for the buffered comparison; alias wrapper by call protocol)',
    level_text='Partial. Proof for all finite corners/points and every tolerance in [0,1]: the bounding-box test used to cull slabs and faults never '
               'rejects a point of the closed core box, and in spherical worlds it also accepts a point whose 2-pi longitude alias lies in the box. '
               'Proof for the three area features and 18 of their models (uniform/adiabatic/linear/chapman/constant-age temperature, uniform and random composition, uniform raw velocity): after parse_entries '
               'the global bounds tested before the depth surfaces are evaluated are exactly the minimum of the min-depth surface and the maximum of the max-depth surface.',
    level_note='Trusted: translator, CBMC; in the parse_entries units every callee is an arbitrary-result body that may raise an exception and writes nothing else (for Interface::get_coordinates and add_vector_unique, which do write other fields of the object, this is an assumption about the fields the postcondition speaks of). Not covered: that the box built in parse_entries contains the slab (trench coordinates extended by '
               'length + thickness vs. the Bezier trench curve), the depth cut-off from maximum length + thickness, that Objects::Surface computes minimum/maximum over its nodal values and interpolates between them, '
               'the nearest-triangle search: the functions that build and use them (SubductingPlate/Fault parse_entries and properties, '
               'Surface) are not under contract here (see DESIGN 15), so the two C07 candidates of DESIGN 7.1 are not decided by this check.',
    scope='BoundingBox<2>::point_inside_implementation, BoundingBox<2>::point_inside; parse_entries of ContinentalPlate/OceanicPlate/MantleLayer and of 18 of their models (depth bounds wiring)',
    not_covered=['box construction and buffers in parse_entries', 'depth cut-off derived from slab length and thickness', 'Objects::Surface itself (minimum/maximum, kd-tree/nearest-triangle search)', 'depth bounds wiring of the models with loops in parse_entries (uniform grains, half space, plate model, random grains)'],
    enforced_elsewhere={'BoundingBox2_point_inside_implementation': 'C07/box_impl'},
)
TU = 'source/world_builder/features/subducting_plate.cc'
UNITS = [
    dict(name='box_impl', enforce='BoundingBox2_point_inside_implementation', contracts='c07_box.c', harness='h_box_impl',
         targets=[dict(tu=TU, qual='WorldBuilder::BoundingBox<2>::point_inside_implementation')],
         unwind_complete=3, defines={'WB_VEC_CAP': 2}, expect_fail=['REACHABILITY-GUARD'], timeout=900,
         canaries=[(r'\(tolerance \* fabs', '(-tolerance * fabs', 'buffer subtracted instead of added (box shrinks)')]),
    dict(name='box_wrapper', enforce='BoundingBox2_point_inside', contracts='c07_box.c', harness='h_box_wrapper',
         targets=[dict(tu=TU, qual='WorldBuilder::BoundingBox<2>::point_inside')],
         stub=['BoundingBox2_point_inside_implementation'], nothrow=['BoundingBox2_point_inside_implementation'],
         replace=['BoundingBox2_point_inside_implementation'], outline_fp='all', defines={'WB_VEC_CAP': 2}, expect_fail=['REACHABILITY-GUARD']),
]


# depth bounds of the area-feature models: global pre-test bounds == extremes of the depth surfaces (contracts/c07_model_bounds.c)
_CLS = {'random': 'Random', 'uniform': 'Uniform', 'random_uniform_distribution': 'RandomUniformDistribution',
        'random_uniform_distribution_deflected': 'RandomUniformDistributionDeflected', 'adiabatic': 'Adiabatic', 'chapman': 'Chapman',
        'linear': 'Linear', 'uniform_raw': 'UniformRaw', 'plate_model_constant_age': 'PlateModelConstantAge'}
_MODELS = [('ContinentalPlate', 'continental_plate', k, f) for k, f in [('Composition', 'random'), ('Composition', 'uniform'), ('Temperature', 'adiabatic'),
                                                                        ('Temperature', 'chapman'), ('Temperature', 'linear'), ('Temperature', 'uniform'), ('Velocity', 'uniform_raw')]] + \
          [('MantleLayer', 'mantle_layer', k, f) for k, f in [('Composition', 'uniform'), ('Temperature', 'adiabatic'), ('Temperature', 'linear'),
                                                              ('Temperature', 'uniform'), ('Velocity', 'uniform_raw')]] + \
          [('OceanicPlate', 'oceanic_plate', k, f) for k, f in [('Composition', 'uniform'), ('Temperature', 'adiabatic'), ('Temperature', 'linear'),
                                                                ('Temperature', 'uniform'), ('Temperature', 'plate_model_constant_age'), ('Velocity', 'uniform_raw')]]
for _fam, _fdir, _kind, _file in _MODELS:
    _mt = 'Features_%sModels_%s_%s' % (_fam, _kind, _CLS[_file])
    UNITS.append(dict(
        name='%s_%s_%s_bounds' % (_fdir, _kind[0], _file), enforce=_mt + '_parse_entries', contracts='c07_model_bounds.c', harness='h_model_bounds',
        targets=[dict(tu='source/world_builder/features/%s_models/%s/%s.cc' % (_fdir, _kind.lower(), _file),
                      qual='WorldBuilder::Features::%sModels::%s::%s::parse_entries' % (_fam, _kind, _CLS[_file]))],
        stub_prefixes=['Parameters_', 'Objects_Surface_'], stub=['Utilities_euler_angles_to_rotation_matrix'], auto_stubs=True, auto_loops=True,
        replace=['Parameters_get_vector__string__ret_double'] if _file == 'uniform_raw' else [],
        outline_fp='all', defines=dict({'MTYPE': _mt, 'MFUNC': _mt + '_parse_entries', 'WB_VEC_CAP': 2, 'WB_CAP_vec_double': 3},
                                       **({'NEED_WORLD': 1} if _file in ('adiabatic', 'chapman', 'linear', 'plate_model_constant_age') else {}),
                                       **({'VEL3': 1} if _file == 'uniform_raw' else {})),
        expect_fail=['REACHABILITY-GUARD']))

# ... and of the three area features themselves
for _fam, _fdir in [('ContinentalPlate', 'continental_plate'), ('OceanicPlate', 'oceanic_plate'), ('MantleLayer', 'mantle_layer')]:
    _mt = 'Features_%s' % _fam
    UNITS.append(dict(
        name='%s_feature_bounds' % _fdir, enforce=_mt + '_parse_entries', contracts='c07_model_bounds.c', harness='h_model_bounds',
        targets=[dict(tu='source/world_builder/features/%s.cc' % _fdir, qual='WorldBuilder::Features::%s::parse_entries' % _fam)],
        stub_prefixes=['Parameters_', 'Objects_Surface_', 'Features_%sModels_' % _fam],
        stub=['Features_Interface_get_coordinates', 'Features_FeatureUtilities_add_vector_unique', 'CoordinateSystems_Interface_natural_coordinate_system'],
        replace=['Parameters_get_unique_pointers__ret_Features_%sModels_%s_Interface' % (_fam, k_) for k_ in ('Temperature', 'Composition', 'Grains', 'Velocity')],
        auto_stubs=True, auto_loops=True, outline_fp='all',
        defines={'MTYPE': _mt, 'MFUNC': _mt + '_parse_entries', 'WB_VEC_CAP': 2, 'NEED_WORLD': 1, 'FEATURE_SIG': 1, 'FAMX': _fam}, expect_fail=['REACHABILITY-GUARD']))


# ----------------------------------------------------------------------------- native replay oracle
import json, math


def _slab_world(lon0, lat0=-10, dip_lat=-30):
    return json.dumps({"version": "1.1", "coordinate system": {"model": "spherical", "depth method": "begin segment"}, "features": [
        {"model": "subducting plate", "name": "S", "coordinates": [[lon0, lat0], [lon0 + 18, lat0]], "dip point": [lon0 + 9, dip_lat],
         "segments": [{"length": 400e3, "thickness": [100e3], "angle": [45]}],
         "composition models": [{"model": "uniform", "compositions": [0]}]}]})


def native_oracle(witness, work, search_seed=None):
    """the bounding-box pre-test never discards a member: a slab written with longitudes beyond 180 degrees answers a query from
    the other side of the date line exactly like the same slab rotated 40 degrees west answers the rotated query"""
    import oracle
    R0 = 6371000.0
    # trench written as -188..-170 (reaching past the date line to the west), in the southern hemisphere; queries from the
    # eastern-hemisphere side (positive longitude) reach the box only through their -360 degree copy
    qa = oracle.Q(_slab_world(-188), work, name='dateline')
    qb = oracle.Q(_slab_world(-228), work, name='rotated')
    try:
        if qa.construct_error or qb.construct_error:
            return dict(status='error', detail=str(qa.construct_error or qb.construct_error))
        n_in = 0
        for lon in [-178.0, -175.0, -172.5, 179.0, 175.0]:
            for lat in [-10.5, -11.0, -12.0, -13.0, -9.0]:
                for depth in [30e3, 80e3, 150e3]:
                    ans = []
                    for q, shift in ((qa, 0.0), (qb, -40.0)):
                        lo, la, r = math.radians(lon + shift), math.radians(lat), R0 - depth
                        x, y, z = r * math.cos(la) * math.cos(lo), r * math.cos(la) * math.sin(lo), r * math.sin(la)
                        ans.append(q.ask('c3 %r %r %r %r 0' % (x, y, z, depth)))
                    if ans[0][0] != 'OK' or ans[1][0] != 'OK':
                        continue
                    a, b = float.fromhex(ans[0][1][0]), float.fromhex(ans[1][1][0])
                    n_in += b > 0.5
                    if (a > 0.5) != (b > 0.5):
                        return dict(status='violated', input=dict(trench_longitudes=[-188, -170], trench_latitude=-10, query=[lon, lat, depth]),
                                    detail='slab with trench longitudes -188..-170 at latitude -10, query (lon %g, lat %g, depth %g km): composition %g, but the same slab rotated 40 degrees west '
                                           'answers %g at the rotated point - the member is discarded by the bounding-box pre-test across the date line' % (lon, lat, depth / 1e3, a, b))
        if n_in == 0:
            return dict(status='error', detail='oracle world has no member among the sampled points')
        return dict(status='holds', detail='75 points around a slab crossing the date line agree with the rotated slab (%d inside)' % n_in)
    finally:
        qa.close()
        qb.close()


def witness_from_trace(unit, failure, seed):
    return {}
