import os, sys
META = dict(
    title='Acceleration shortcuts never change an answer',
    technique='CBMC code contracts (DFCC) on the mechanically extracted BoundingBox<2> tests (concrete IEEE arithmetic for the buffered comparison; alias wrapper by call protocol)',
    level_text='Partial. Proof for all finite corners/points and every tolerance in [0,1]: the bounding-box test used to cull slabs and faults never '
               'rejects a point of the closed core box, and in spherical worlds it also accepts a point whose 2-pi longitude alias lies in the box.',
    level_note='Trusted: translator, CBMC. Not covered: that the box built in parse_entries contains the slab (trench coordinates extended by '
               'length + thickness vs. the Bezier trench curve), the depth cut-off from maximum length + thickness, min/max pre-tests of depth '
               'surfaces and the nearest-triangle search: the functions that build and use them (SubductingPlate/Fault parse_entries and properties, '
               'Surface) are not under contract here (see DESIGN 15), so the two C07 candidates of DESIGN 7.1 are not decided by this check.',
    scope='BoundingBox<2>::point_inside_implementation, BoundingBox<2>::point_inside',
    not_covered=['box construction and buffers in parse_entries', 'depth cut-off derived from slab length and thickness', 'Surface min/max pre-tests, kd-tree/nearest-triangle search'],
    enforced_elsewhere={'BoundingBox2_point_inside_implementation': 'C07/box_impl'},
)
TU = 'source/world_builder/features/subducting_plate.cc'
UNITS = [
    dict(name='box_impl', enforce='BoundingBox2_point_inside_implementation', contracts='c07_box.c', harness='h_box_impl',
         targets=[dict(tu=TU, qual='WorldBuilder::BoundingBox<2>::point_inside_implementation')],
         unwind_complete=3, defines={'WB_VEC_CAP': 2}, expect_fail=['REACHABILITY-GUARD'], timeout=900,
         canaries=[(r'\(tolerance \* fabs', '(-tolerance * fabs', 'buffer subtracted instead of added (box shrinks)')]),
    dict(name='box_wrapper', enforce='BoundingBox2_point_inside', contracts='c07_box.c', harness='h_box_wrapper',
         targets=[dict(tu=TU, qual='WorldBuilder::BoundingBox<2>::point_inside')],
         stub=['BoundingBox2_point_inside_implementation'], nothrow=['BoundingBox2_point_inside_implementation'],
         replace=['BoundingBox2_point_inside_implementation'], outline_fp='all', defines={'WB_VEC_CAP': 2}, expect_fail=['REACHABILITY-GUARD']),
]
