import os, sys, math, random
sys.path.insert(0, os.path.join(os.path.dirname(os.path.abspath(__file__)), '..', 'lib'))
META = dict(
    title='Geometric kernels agree with their brute-force definitions',
    technique='CBMC code contracts (DFCC) on the mechanically extracted kernels; formulas compared structurally over uninterpreted sqrt/acos/atan2/sin/cos; constant-trip-count loops (dimension 3) unwound completely',
    level_text='Proof per kernel for all double inputs: the same-depth distance on the sphere is r*acos(clamp(p1.p2/(r*r),-1,1)) - the '
               'great-circle definition for any pair, including pairs more than 90 degrees apart; Cartesian<->spherical conversions compute the '
               'documented expressions; the dot product is the index-ordered sum of products.',
    level_note='Trusted: translator, shims, CBMC, libm uninterpreted. Structural comparison: the proof shows the code evaluates exactly the '
               'documented expression tree; that the tree round-trips / is optimal is real analysis and not covered.',
    scope='Spherical::distance_between_points_at_same_depth, Utilities::cartesian_to_spherical_coordinates, spherical_to_cartesian_coordinates, Point<3>::operator*(Point)',
    not_covered=['kd-tree nearest-point optimality', 'Bezier closest-point quality and curve interpolation', 'conversion round trip (real analysis)',
                 'exactness of the polygon test under exact arithmetic (the decision structure is proved under C04)'],
    enforced_elsewhere={'Point3_dot': 'C19/point3_dot', 'Utilities_spherical_to_cartesian_coordinates': 'C19/spherical_to_cartesian'},
)
ALIASES = {'WorldBuilder::Point<3>::operator*|double (const Point<3': 'Point3_dot',
           'WorldBuilder::CoordinateSystems::Spherical::distance_between_points_at_same_depth|': 'great_circle'}
UNITS = [
    dict(name='point3_dot', enforce='Point3_dot', contracts='c19_kernels.c', harness='h_point3_dot',
         targets=[dict(tu='source/world_builder/point.cc', qual='WorldBuilder::Point<3>::operator*', sig='double (const Point<3', cname='Point3_dot')],
         aliases=ALIASES, outline_fp=True, unwind_complete=4, defines={'WB_VEC_CAP': 2}, expect_fail=['REACHABILITY-GUARD']),
    dict(name='great_circle', enforce='great_circle', contracts='c19_kernels.c', harness='h_great_circle',
         targets=[dict(tu='source/world_builder/coordinate_systems/spherical.cc', qual='WorldBuilder::CoordinateSystems::Spherical::distance_between_points_at_same_depth', cname='great_circle')],
         aliases=ALIASES, stub=['Utilities_spherical_to_cartesian_coordinates', 'Point3_dot'], nothrow=['Utilities_spherical_to_cartesian_coordinates', 'Point3_dot'],
         replace=['Utilities_spherical_to_cartesian_coordinates', 'Point3_dot'],
         outline_fp=True, defines={'WB_VEC_CAP': 2}, expect_fail=['REACHABILITY-GUARD'], spurious_if_oracle_holds=True),
    dict(name='cartesian_to_spherical', enforce='Utilities_cartesian_to_spherical_coordinates', contracts='c19_kernels.c', harness='h_cartesian_to_spherical',
         targets=[dict(tu='source/world_builder/utilities.cc', qual='WorldBuilder::Utilities::cartesian_to_spherical_coordinates')],
         outline_fp=True, defines={'WB_VEC_CAP': 2}, expect_fail=['REACHABILITY-GUARD'], spurious_if_oracle_holds=True),
    dict(name='spherical_to_cartesian', enforce='Utilities_spherical_to_cartesian_coordinates', contracts='c19_kernels.c', harness='h_spherical_to_cartesian',
         targets=[dict(tu='source/world_builder/utilities.cc', qual='WorldBuilder::Utilities::spherical_to_cartesian_coordinates')],
         outline_fp=True, defines={'WB_VEC_CAP': 2}, expect_fail=['REACHABILITY-GUARD'], spurious_if_oracle_holds=True),
]


# ----------------------------------------------------------------------------- native replay oracle
SPH = """{"version":"1.1", "coordinate system":{"model":"spherical", "depth method":"starting point"}, "features":[]}"""


def native_oracle(witness, work, search_seed=None):
    import oracle
    q = oracle.Q(SPH, work)
    try:
        if q.construct_error:
            return dict(status='error', detail=q.construct_error)
        rnd = random.Random(search_seed or 1)
        R = 6371000.0
        pairs = [(0.0, 0.0, 2.0943951023931953, 0.0), (0.1, 0.2, 3.0, -0.3), (0.0, 0.0, 1.0471975511965976, 0.0)]
        for i in range(60):
            pairs.append((rnd.uniform(-math.pi, math.pi), rnd.uniform(-1.5, 1.5), rnd.uniform(-math.pi, math.pi), rnd.uniform(-1.5, 1.5)))
        for lo1, la1, lo2, la2 in pairs:
            st, v = q.ask('gc %r %r %r %r %r' % (R, lo1, la1, lo2, la2))
            if st != 'OK':
                continue
            got = float.fromhex(v[0])
            c = math.sin(la1) * math.sin(la2) + math.cos(la1) * math.cos(la2) * math.cos(lo1 - lo2)
            exp = R * math.acos(max(-1.0, min(1.0, c)))
            if abs(got - exp) > 1e-6 * R:
                return dict(status='violated', detail='same-depth distance between (lon,lat)=(%.4f,%.4f) and (%.4f,%.4f) rad on radius %r: library %r, great-circle distance %r (%.1f degrees apart)'
                                                      % (lo1, la1, lo2, la2, R, got, exp, math.degrees(math.acos(max(-1, min(1, c))))))
        for i in range(40):
            x, y, z = (rnd.uniform(-7e6, 7e6) for _ in range(3))
            st, v = q.ask('c2s %r %r %r' % (x, y, z))
            r_, lo, la = [float.fromhex(t) for t in v]
            e = (math.sqrt(x * x + y * y + z * z), math.atan2(y, x), 0.5 * math.pi - math.acos(z / math.sqrt(x * x + y * y + z * z)))
            if any(abs(a - b) > 1e-9 * max(1, abs(b)) for a, b in zip((r_, lo, la), e)):
                return dict(status='violated', detail='cartesian_to_spherical(%r,%r,%r) = %s, documented %s' % (x, y, z, (r_, lo, la), e))
            st, v = q.ask('s2c %r %r %r' % e)
            back = [float.fromhex(t) for t in v]
            if any(abs(a - b) > 1e-6 * 7e6 for a, b in zip(back, (x, y, z))):
                return dict(status='violated', detail='spherical_to_cartesian(%s) = %s, expected %s' % (e, back, (x, y, z)))
        return dict(status='holds', detail='%d point pairs agree with the great-circle distance; 40 conversions agree with the documented formulas' % len(pairs))
    finally:
        q.close()


def witness_from_trace(unit, failure, seed):
    return {}
