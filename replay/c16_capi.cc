// c16_capi - replay oracle for C16: drives the real C interface and compares with the native World object.
// usage: c16_capi <world file> <output dir (with trailing slash)> <seed>
// prints one line "OUTDIR ok|missing <path>" and "VALUES ok|differ ..." ; exit 1 when the property is violated.
#include "world_builder/wrapper_c.h"
#include "world_builder/world.h"
#include <cstdio>
#include <cstring>
#include <string>
#include <fstream>
#include <vector>
int main(int argc, char **argv)
{
  if (argc < 4) return 2;
  const char *file = argv[1]; const char *dir = argv[2]; unsigned long seed = std::stoul(argv[3]);
  void *h = nullptr; bool has = true; int bad = 0;
  try { create_world(&h, file, &has, dir, seed); }
  catch (std::exception &e) { printf("OUTDIR create_world threw: %.200s\n", e.what()); return 1; }
  std::string expect = std::string(dir) + "world_builder_declarations.schema.json";
  std::ifstream f(expect);
  if (f.good()) printf("OUTDIR ok %s\n", expect.c_str()); else { printf("OUTDIR missing %s\n", expect.c_str()); bad = 1; }
  WorldBuilder::World w(file, false, "", seed);
  const unsigned int req[3][3] = {{1,0,0},{2,0,0},{4,0,0}};
  double vals[8] = {0};
  properties_3d(h, 500e3, 500e3, 900e3, 100e3, req, 3, vals);
  std::vector<double> nat = w.properties(std::array<double,3>{{500e3,500e3,900e3}}, 100e3, {{{1,0,0}},{{2,0,0}},{{4,0,0}}});
  bool same = nat.size() == 3 && std::memcmp(vals, nat.data(), 3*sizeof(double)) == 0;
  double t = 0, c = 0; temperature_3d(h, 500e3, 500e3, 900e3, 100e3, &t); composition_3d(h, 500e3, 500e3, 900e3, 100e3, 0, &c);
  same = same && t == w.temperature(std::array<double,3>{{500e3,500e3,900e3}}, 100e3) && c == w.composition(std::array<double,3>{{500e3,500e3,900e3}}, 100e3, 0);
  if (properties_output_size(h, req, 3) != w.properties_output_size({{{1,0,0}},{{2,0,0}},{{4,0,0}}})) same = false;
  printf("VALUES %s\n", same ? "ok" : "differ");
  if (!same) bad = 1;
  release_world(h);
  return bad;
}
