// c16_capi - replay oracle for C16: drives the real C interface and compares with the native World object.
// usage: c16_capi <world file> <output dir (with trailing slash)> <seed>
// prints one line "OUTDIR ok|missing <path>" and "VALUES ok|differ ..." ; exit 1 when the property is violated.
#include "world_builder/wrapper_c.h"
#include "world_builder/world.h"
#include <cstdio>
#include <cstring>
#include <string>
#include <fstream>
#include <vector>
int main(int argc, char **argv)
{
  if (argc < 4) return 2;
  const char *file = argv[1]; const char *dir = argv[2]; unsigned long seed = std::stoul(argv[3]);
  void *h = nullptr; bool has = true; int bad = 0;
  try { create_world(&h, file, &has, dir, seed); }
  catch (std::exception &e) { printf("OUTDIR create_world threw: %.200s\n", e.what()); return 1; }
  std::string expect = std::string(dir) + "world_builder_declarations.schema.json";
  std::ifstream f(expect);
  if (f.good()) printf("OUTDIR ok %s\n", expect.c_str()); else { printf("OUTDIR missing %s\n", expect.c_str()); bad = 1; }
  // the other argument combinations: a true flag with a null directory writes into the working directory (like
  // World(file, true, "", seed)); a false flag writes nothing even when a directory is given
  {
    std::remove("world_builder_declarations.schema.json");
    void *h2 = nullptr; bool yes = true;
    try { create_world(&h2, file, &yes, nullptr, seed); release_world(h2); }
    catch (std::exception &e) { printf("OUTDIR create_world(flag=true, dir=NULL) threw: %.200s\n", e.what()); return 1; }
    std::ifstream f2("world_builder_declarations.schema.json");
    if (f2.good()) printf("OUTDIR ok (flag=true, dir=NULL -> working directory)\n");
    else { printf("OUTDIR missing: create_world(flag=true, dir=NULL) wrote no declaration files into the working directory, World(file,true,\"\",seed) does\n"); bad = 1; }
    std::string dir3 = std::string(dir) + "unused/";
    void *h3 = nullptr; bool no = false;
    try { create_world(&h3, file, &no, dir3.c_str(), seed); release_world(h3); }
    catch (std::exception &e) { printf("OUTDIR create_world(flag=false) threw: %.200s\n", e.what()); return 1; }
    std::ifstream f3(dir3 + "world_builder_declarations.schema.json");
    if (f3.good()) { printf("OUTDIR unexpected: create_world(flag=false, dir) wrote declaration files\n"); bad = 1; }
  }
  WorldBuilder::World w(file, false, "", seed);
  bool same = true;
  const unsigned int reqs[4][3][3] = {{{1,0,0},{2,0,0},{4,0,0}}, {{3,0,1},{5,0,0},{2,1,0}}, {{3,1,2},{1,0,0},{3,0,1}}, {{5,0,0},{3,0,2},{4,0,0}}};
  const double xs[3] = {30e3, -40e3, 250e3}, ds[3] = {0.0, 10e3, 300e3};
  for (int r = 0; r < 4 && same; ++r)
    for (int k = 0; k < 3 && same; ++k)
      {
        const double x = xs[k], d = ds[k], z = 1000e3 - d, y = 0.5 * x;
        std::vector<std::array<unsigned int,3>> req; for (int j = 0; j < 3; ++j) req.push_back({{reqs[r][j][0], reqs[r][j][1], reqs[r][j][2]}});
        const unsigned int n = properties_output_size(h, reqs[r], 3);
        if (n != w.properties_output_size(req)) { printf("DIFF properties_output_size request %d\n", r); same = false; }
        std::vector<double> v3(n + 400, -7.0), v2(n + 400, -7.0);
        properties_3d(h, x, y, z, d, reqs[r], 3, v3.data());
        properties_2d(h, x, z, d, reqs[r], 3, v2.data());
        std::vector<double> n3 = w.properties(std::array<double,3>{{x,y,z}}, d, req), n2 = w.properties(std::array<double,2>{{x,z}}, d, req);
        if (n3.size() != n || std::memcmp(v3.data(), n3.data(), n*sizeof(double)) != 0 || v3[n] != -7.0) { printf("DIFF properties_3d request %d at x=%g depth=%g\n", r, x, d); same = false; }
        if (n2.size() != n || std::memcmp(v2.data(), n2.data(), n*sizeof(double)) != 0 || v2[n] != -7.0) { printf("DIFF properties_2d request %d at x=%g depth=%g\n", r, x, d); same = false; }
        double t = 0, c = 0;
        temperature_3d(h, x, y, z, d, &t); if (std::memcmp(&t, &n3[0], 0) != 0 || t != w.temperature(std::array<double,3>{{x,y,z}}, d)) { printf("DIFF temperature_3d\n"); same = false; }
        temperature_2d(h, x, z, d, &t); if (t != w.temperature(std::array<double,2>{{x,z}}, d)) { printf("DIFF temperature_2d\n"); same = false; }
        for (unsigned int ci = 0; ci < 3; ++ci)
          {
            composition_3d(h, x, y, z, d, ci, &c); if (c != w.composition(std::array<double,3>{{x,y,z}}, d, ci)) { printf("DIFF composition_3d %u\n", ci); same = false; }
            composition_2d(h, x, z, d, ci, &c); if (c != w.composition(std::array<double,2>{{x,z}}, d, ci)) { printf("DIFF composition_2d %u\n", ci); same = false; }
          }
      }
  printf("VALUES %s\n", same ? "ok" : "differ");
  if (!same) bad = 1;
  release_world(h);
  return bad;
}
