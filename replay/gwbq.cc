// gwbq - native query tool used by the replay oracles: runs the REAL library built from /repo's working tree.
// usage: gwbq <world file> [seed]    then one command per stdin line, one answer line per command:
//   p3 x y z depth a,b,c [a,b,c ...]      World::properties (3D)        -> hex doubles
//   p2 x z depth a,b,c [...]              World::properties (2D)
//   t3 x y z depth | t2 x z depth         World::temperature
//   c3 x y z depth i | c2 x z depth i     World::composition
//   size a,b,c [...]                      World::properties_output_size
//   dist x y z depth name                 World::distance_to_plane
//   gc r lon1 lat1 lon2 lat2 (radians)    coordinate system: distance_between_points_at_same_depth
//   c2s x y z | s2c r lon lat             Utilities conversions
// an exception is answered by "EXC <what>"
#include "world_builder/world.h"
#include "world_builder/objects/distance_from_surface.h"
#include "world_builder/utilities.h"
#include "world_builder/coordinate_systems/interface.h"
#include <iostream>
#include <sstream>
#include <cstdio>
#include <memory>
using namespace WorldBuilder;

static std::vector<std::array<unsigned int,3>> parse_props(std::istringstream &is)
{
  std::vector<std::array<unsigned int,3>> p; std::string tok;
  while (is >> tok) { unsigned a,b,c; if (sscanf(tok.c_str(), "%u,%u,%u", &a,&b,&c)==3) p.push_back({{a,b,c}}); }
  return p;
}
static void out(const std::vector<double> &v) { for (double d : v) printf("%a ", d); printf("\n"); }

int main(int argc, char **argv)
{
  if (argc < 2) return 2;
  // usage: gwbq <world file> [seed] [more world files ...]; "use <k>" switches to the k-th world (all stay alive)
  std::vector<std::unique_ptr<World>> worlds;
  unsigned long seed = 1;
  std::vector<std::string> files;
  for (int a = 1; a < argc; ++a) { std::string s(argv[a]); if (a == 2 && s.find_first_not_of("0123456789") == std::string::npos) seed = std::stoul(s); else files.push_back(s); }
  try { for (auto &f : files) worlds.emplace_back(new World(f, false, "", seed, true)); }
  catch (std::exception &e) { printf("CONSTRUCT-EXC %s\n", std::string(e.what()).substr(0,200).c_str()); return 3; }
  World *w = worlds[0].get();
  printf("OK\n"); fflush(stdout);
  std::string line;
  while (std::getline(std::cin, line))
    {
      std::istringstream is(line); std::string cmd; is >> cmd;
      if (cmd == "use") { size_t k; is >> k; if (k < worlds.size()) { w = worlds[k].get(); printf("0x0p+0\n"); } else printf("EXC no such world\n"); fflush(stdout); continue; }
      try {
        if (cmd == "p3") { double x,y,z,d; is>>x>>y>>z>>d; out(w->properties(std::array<double,3>{{x,y,z}}, d, parse_props(is))); }
        else if (cmd == "p2") { double x,z,d; is>>x>>z>>d; out(w->properties(std::array<double,2>{{x,z}}, d, parse_props(is))); }
        else if (cmd == "t3") { double x,y,z,d; is>>x>>y>>z>>d; out({w->temperature(std::array<double,3>{{x,y,z}}, d)}); }
        else if (cmd == "t2") { double x,z,d; is>>x>>z>>d; out({w->temperature(std::array<double,2>{{x,z}}, d)}); }
        else if (cmd == "c3") { double x,y,z,d; unsigned i; is>>x>>y>>z>>d>>i; out({w->composition(std::array<double,3>{{x,y,z}}, d, i)}); }
        else if (cmd == "c2") { double x,z,d; unsigned i; is>>x>>z>>d>>i; out({w->composition(std::array<double,2>{{x,z}}, d, i)}); }
        else if (cmd == "size") { printf("%u\n", w->properties_output_size(parse_props(is))); }
        else if (cmd == "dist") { double x,y,z,d; std::string n; is>>x>>y>>z>>d; std::getline(is, n); n.erase(0, n.find_first_not_of(' '));
                                  auto pd = w->distance_to_plane(std::array<double,3>{{x,y,z}}, d, n);
                                  out({pd.get_distance_from_surface(), pd.get_distance_along_surface()}); }
        else if (cmd == "gc") { double r,lo1,la1,lo2,la2; is>>r>>lo1>>la1>>lo2>>la2;
                                out({w->parameters.coordinate_system->distance_between_points_at_same_depth(Point<3>(r,lo1,la1,spherical), Point<3>(r,lo2,la2,spherical))}); }
        else if (cmd == "c2s") { double x,y,z; is>>x>>y>>z; auto a = Utilities::cartesian_to_spherical_coordinates(Point<3>(x,y,z,cartesian)); out({a[0],a[1],a[2]}); }
        else if (cmd == "s2c") { double r,lo,la; is>>r>>lo>>la; auto a = Utilities::spherical_to_cartesian_coordinates(std::array<double,3>{{r,lo,la}}); out({a[0],a[1],a[2]}); }
        else printf("EXC unknown command\n");
      } catch (std::exception &e) { std::string m(e.what()); for (char &c : m) if (c=='\n') c=' '; printf("EXC %s\n", m.substr(0,200).c_str()); }
      fflush(stdout);
    }
  return 0;
}
