// Native replay for Utilities::calculate_ridge_distance_and_spreading of the REAL library.
// usage: ridge <world.wb> ; stdin lines:
//   q <px> <py> <pz> | ridge: <npts> (x y s u)*   -> prints the four results (one ridge; subducting velocity per point)
#include "world_builder/world.h"
#include "world_builder/utilities.h"
#include "world_builder/objects/natural_coordinate.h"
#include <iostream>
#include <sstream>
#include <cstdio>
using namespace WorldBuilder;
int main(int argc, char **argv)
{
  if (argc < 2) return 2;
  try
    {
      World world(argv[1]);
      std::cout << "OK" << std::endl;
      std::string line;
      while (std::getline(std::cin, line))
        {
          std::istringstream is(line);
          std::string cmd; is >> cmd;
          if (cmd != "q") { std::cout << "EXC unknown command" << std::endl; continue; }
          std::array<double,3> p; is >> p[0] >> p[1] >> p[2];
          unsigned int n; is >> n;
          std::vector<std::vector<Point<2>>> ridges(1);
          std::vector<std::vector<double>> sv(1), uv(1);
          const CoordinateSystem cs = world.parameters.coordinate_system->natural_coordinate_system();
          for (unsigned int i = 0; i < n; ++i)
            {
              double x, y, s, u; is >> x >> y >> s >> u;
              ridges[0].emplace_back(x, y, cs); sv[0].push_back(s); uv[0].push_back(u);
            }
          std::vector<double> mt(1, 0.0);
          try
            {
              const Objects::NaturalCoordinate nat(p, *(world.parameters.coordinate_system));
              const std::vector<double> r = Utilities::calculate_ridge_distance_and_spreading(ridges, sv, world.parameters.coordinate_system, nat, uv, mt);
              for (const double v : r) std::printf("%a ", v);
              std::printf("\n"); std::fflush(stdout);
            }
          catch (std::exception &e) { std::cout << "EXC " << e.what() << std::endl; }
        }
    }
  catch (std::exception &e) { std::string m = e.what(); for (auto &ch : m) if (ch == '\n') ch = ' '; std::cout << "CONSTRUCT " << m << std::endl; }
  return 0;
}
