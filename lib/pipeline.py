#!/usr/bin/env python3
"""Verification pipeline: cxx2c -> splice loop contracts -> goto-cc -> goto-instrument --dfcc -> cbmc -> classify.

A *unit* is one function under contract (one DFCC query).  Units are plain dicts:

  name        unit id (also harness suffix)
  targets     list of cxx2c targets (tu, qual, sig, cname)
  aliases     {"qual|sig": cname}        stub: [cname...]     nothrow: [cname...]
  contracts   path (relative to /verif/contracts) of the C file with carriers, ghost state and harness;
              it must `#include "gen.c"`
  harness     name of the harness function (default h_<enforce>)
  enforce     C name of the function whose contract is enforced (carrier <enforce>__contract)
  rec         True -> --enforce-contract-rec
  replace     [cname...] calls replaced by their contract (carrier <cname>__contract)
  loops       {(cname, k): {"contract": text, "begin": text, "end": text}}
  defines     {NAME: value}
  backend     'sat' (minisat, default) | 'cvc5' | 'z3'
  timeout     seconds (default 300)
  checks      extra cbmc flags
  expect_fail obligations (regex) that must FAIL (reachability guards)
"""
import json, os, re, subprocess, sys, time, shutil, hashlib, resource

HERE = os.path.dirname(os.path.abspath(__file__))
VERIF = os.path.dirname(HERE)
sys.path.insert(0, HERE)
import cxx2c
import fpx

CBMC_FLAGS = ['--no-malloc-may-fail', '--bounds-check', '--pointer-check', '--div-by-zero-check', '--signed-overflow-check',
              '--conversion-check', '--undefined-shift-check', '--pointer-overflow-check']
MEM_LIMIT_KB = 24 * 1024 * 1024


def _limits():
    resource.setrlimit(resource.RLIMIT_AS, (MEM_LIMIT_KB * 1024, MEM_LIMIT_KB * 1024))


def sh(cmd, cwd=None, timeout=None, log=None):
    t0 = time.time()
    try:
        r = subprocess.run(cmd, cwd=cwd, capture_output=True, text=True, timeout=timeout, preexec_fn=_limits)
        out, err, rc = r.stdout, r.stderr, r.returncode
    except subprocess.TimeoutExpired as e:
        out = e.stdout.decode() if isinstance(e.stdout, bytes) else (e.stdout or '')
        err = (e.stderr.decode() if isinstance(e.stderr, bytes) else (e.stderr or '')) + '\nTIMEOUT'
        rc = -9
    dt = time.time() - t0
    if log:
        with open(log, 'a') as f:
            f.write('$ %s\n[rc=%s, %.1fs]\n%s\n%s\n' % (' '.join(cmd), rc, dt, out[-200000:], err[-20000:]))
    return rc, out, err, dt


class Undecided(Exception):
    pass


BACKEND_FLAGS = {'minisat': [], 'sat': [], 'cadical': ['--sat-solver', 'cadical'], 'cvc5': ['--cvc5'], 'z3': ['--z3']}


def portfolio(base, backends, timeout, log):
    """Run the same query on several back ends at once; the first to finish with an answer wins."""
    import tempfile
    procs = []
    t0 = time.time()
    for be in backends:
        fo = tempfile.TemporaryFile(mode='w+')
        fe = tempfile.TemporaryFile(mode='w+')
        p = subprocess.Popen(base + BACKEND_FLAGS[be], stdout=fo, stderr=fe, text=True, preexec_fn=_limits)
        procs.append((be, p, fo, fe))
    winner = None
    try:
        while time.time() - t0 < timeout and winner is None:
            alive = False
            for be, p, fo, fe in procs:
                rc = p.poll()
                if rc is None:
                    alive = True
                    continue
                if rc in (0, 10):
                    fo.seek(0)
                    winner = (fo.read(), be)
                    break
            if winner is None and not alive:
                break
            if winner is None:
                time.sleep(0.2)
    finally:
        for be, p, fo, fe in procs:
            if p.poll() is None:
                p.kill()
                p.wait()
    dt = time.time() - t0
    with open(log, 'a') as f:
        f.write('$ %s  [portfolio %s] -> %s in %.1fs\n' % (' '.join(base), backends, winner[1] if winner else 'none', dt))
        if winner is None:
            for be, p, fo, fe in procs:
                fo.seek(0)
                fe.seek(0)
                f.write('--- %s rc=%s\n%s\n%s\n' % (be, p.returncode, fo.read()[-3000:], fe.read()[-3000:]))
    if winner is None:
        return None, None, dt
    return winner[0], winner[1], dt


def splice(gen, loops):
    """Replace /*@LOOP fn k@*/ markers by the loop contracts; insert ghost code at body begin / end."""
    used = set()

    def repl_loop(m):
        key = (m.group(1), int(m.group(2)))
        lc = loops.get(key)
        if lc is None:
            return '/* loop %s #%d: no contract */' % key
        used.add(key)
        return lc.get('contract', '')
    out = re.sub(r'/\*@LOOP (\w+) (\d+)@\*/', repl_loop, gen)

    def repl_body(m):
        key = (m.group(2), int(m.group(3)))
        lc = loops.get(key) or {}
        return lc.get({'BODY': 'begin', 'BODYEND': 'end', 'PRELOOP': 'pre'}[m.group(1)], '') or ''
    out = re.sub(r'/\*@(BODY|BODYEND|PRELOOP) (\w+) (\d+)@\*/', repl_body, out)
    missing = set(loops) - used
    if missing:
        raise Undecided('loop contracts for loops that no longer exist: %s' % sorted(missing))
    return out


def wf_functions(gen):
    """Type invariants of the translated data types, generated from the struct definitions of the generated C:
    wf_<S>(p) holds iff every embedded vector of *p (recursively, pointers are not followed) has size <= capacity.
    Used by frame-only units to constrain harness inputs and the arbitrary results of callee bodies."""
    defs = re.findall(r'^struct (\w+) \{ (.*) \};$', gen, re.M)
    need = {}
    code = []
    loops = []
    for name, body in defs:
        fields = [f.strip() for f in body.split(';') if f.strip()]
        conj = []
        isvec = name.startswith('vec_') and any(re.match(r'^size_t n$', f) for f in fields)
        if isvec:
            conj.append('p->n <= WB_CAP_%s' % name)
        lp = []
        for f in fields:
            m = re.match(r'^struct (\w+) (\w+)(?:\[(\w+)\])?$', f)
            if not m or m.group(1) not in need:
                continue
            t, fld, arr = m.groups()
            if arr:
                lp.append('for (size_t k_ = 0; k_ < %s; k_++) { if (!wf_%s(&p->%s[k_])) return 0; }' % (arr, t, fld))
            else:
                conj.append('wf_%s(&p->%s)' % (t, fld))
        if not conj and not lp:
            continue
        need[name] = True
        if lp:
            loops.append(('wf_' + name, len(lp)))
        code.append('static inline _Bool wf_%s(const struct %s *p) { %s return %s; }' % (name, name, ' '.join(lp), ' && '.join(conj) or '1'))
    return '\n'.join(code) + '\n', loops, need


def loops_in(gen):
    return [(m.group(1), int(m.group(2))) for m in re.finditer(r'/\*@LOOP (\w+) (\d+)@\*/', gen)]


def translate_unit(unit):
    cfg = dict(aliases=unit.get('aliases', {}), stub=unit.get('stub', []), nothrow=unit.get('nothrow', []),
               stub_prefixes=unit.get('stub_prefixes', []), no_inline=unit.get('no_inline', []),
               outline_fp=unit.get('outline_fp', False))
    tr = cxx2c.translate(unit['targets'], cfg)
    return tr


def run_unit(unit, work, tier='quick'):
    """Returns a result dict; never raises for solver outcomes."""
    name = unit['name']
    d = os.path.join(work, name)
    os.makedirs(d, exist_ok=True)
    log = os.path.join(d, 'log.txt')
    res = dict(unit=name, function=unit.get('enforce'), status='undecided', obligations=0, discharged=0,
               failed=[], reason='', backend=unit.get('backend', 'sat'), seconds=0.0, dropped=[], stubs=[],
               loops=0, log=log)
    t0 = time.time()
    try:
        tr = translate_unit(unit)
        gen = tr.emit()
        res['dropped'] = sorted(set(tr.dropped))
        res['stubs'] = sorted(cn for cn, i in tr.funcs.items() if i.get('stub'))
        res['translated'] = sorted(cn for cn, i in tr.funcs.items() if not i.get('stub'))
        all_loops = loops_in(gen)
        res['loops'] = len(all_loops)
        loops = dict(unit.get('loops', {}))
        if unit.get('frame_only') or unit.get('auto_loops'):
            # frame-only unit: every loop gets the trivially true invariant (DFCC then havocs everything the loop
            # may write and checks one arbitrary iteration: a sound over-approximation for "no write outside the frame")
            for l_ in all_loops:
                loops.setdefault(l_, dict(contract='__CPROVER_loop_invariant(1)'))
        nocontract = [l for l in all_loops if l not in loops]
        if unit.get('_mutate'):
            pat, rep = unit['_mutate']
            gen_m, cnt = re.subn(pat, rep, gen, count=1)
            if cnt != 1:
                raise Undecided('canary pattern %r did not match the generated code' % pat)
            gen = gen_m
        decls = {}
        loops2 = {}
        for key, lc in loops.items():
            lc2 = {}
            for kk, txt in lc.items():
                for _ in range(6):
                    if not re.search(r'FPXA?\(', txt or ''):
                        break
                    txt = fpx.expand(txt, decls)
                lc2[kk] = txt
            loops2[key] = lc2
        gen2 = splice(gen, loops2)
        # ghost statements (lemmas: assertions over locals of the real code) anchored by a pattern of the generated
        # text; the anchor must match exactly once, anything else is an extraction break (exit 2)
        for pat, ghost in unit.get('inserts', []):
            ms = list(re.finditer(pat, gen2))
            if len(ms) != 1:
                raise Undecided('ghost anchor %r matches %d times in the generated code' % (pat, len(ms)))
            gen2 = gen2[:ms[0].start()] + ghost + '\n' + gen2[ms[0].start():]
        if unit.get('frame_only') or unit.get('auto_stubs'):
            # callees that are not translated (stubs: virtual model functions, large geometry routines) get a body that
            # may raise the exception flag, returns an arbitrary value and writes nothing else - the assumed frame of
            # every callee, listed in the evidence.  (A call to a body-less function would cut the path under DFCC.)
            wfcode, wfloops, wfneed = wf_functions(gen2)
            # after the type definitions and vector shims, before the first prototype
            lines_ = gen2.split('\n')
            last_ = max(i_ for i_, l_ in enumerate(lines_) if re.match(r'^(struct \w+ \{|WB_VEC_SHIMS|enum \w+ \{|#endif)', l_))
            gen2 = '\n'.join(lines_[:last_ + 1]) + '\n/* type invariants (vector sizes within capacity) */\n' + wfcode + '\n'.join(lines_[last_ + 1:])
            res['wf_loops'] = wfloops
            bodies = []
            for st in res['stubs']:
                if st in unit.get('replace', []):
                    continue
                mm = re.search(r'^([^\n;{}]*?\b%s\(([^;{}]*)\));\s*$' % re.escape(st), gen2, re.M)
                if not mm:
                    raise Undecided('frame unit: no prototype found for stub %s' % st)
                proto = mm.group(1)
                rett = proto[:proto.index(st)].strip()
                throw = '' if st in unit.get('nothrow', []) else '_Bool t_; if (t_) wb_thrown = 1; '
                ret = '' if rett == 'void' else '%s r_; return r_; ' % rett
                mret = re.match(r'^struct (\w+)$', rett)
                if mret and mret.group(1) in wfneed:
                    ret = '%s r_; __CPROVER_assume(wf_%s(&r_)); return r_; ' % (rett, mret.group(1))
                bodies.append('%s { %s%s}' % (proto, throw, ret))
            gen2 += '\n/* frame unit: assumed callee frames (write nothing but the exception flag) */\n' + '\n'.join(bodies) + '\n'
            res['assumed_callee_frames'] = [st for st in res['stubs'] if st not in unit.get('replace', [])]
        with open(os.path.join(d, 'gen.c'), 'w') as f:
            f.write(gen2)
        csrc = os.path.join(d, 'main.c')
        ctext = open(os.path.join(VERIF, 'contracts', unit['contracts'])).read()

        def inline_inc(m):
            hp = os.path.join(VERIF, 'contracts', m.group(1))
            if os.path.exists(hp) and re.search(r'FPXA?\(', open(hp).read()):
                return '/* inlined %s */\n' % m.group(1) + open(hp).read()
            return m.group(0)
        ctext = re.sub(r'#include "([\w.]+)"', inline_inc, ctext)
        import zlib
        ctext = re.sub(r'WB_STR\("([^"]*)"\)', lambda m_: 'wb_string_lit(0x%xul)' % ((zlib.crc32(m_.group(1).encode()) | 0x100000000) if m_.group(1) else 0), ctext)
        for _ in range(6):
            if not re.search(r'FPXA?\(', re.sub(r'/\*.*?\*/', '', ctext, flags=re.S)):
                break
            ctext = fpx.expand(ctext, decls)
        with open(os.path.join(d, 'fpx_decls.h'), 'w') as f:
            f.write('\n'.join(decls.values()))
        ctext = ctext.replace('#include "gen.c"', '#include "fpx_decls.h"\n#include "gen.c"', 1)
        with open(csrc, 'w') as f:
            f.write(ctext)
        harness = unit.get('harness', 'h_' + unit['enforce'])
        dd = dict(unit.get('defines', {}))
        if tier == 'thorough':
            dd.update(unit.get('defines_thorough', {}))
        res['defines'] = dd
        defs = ['-D%s=%s' % kv for kv in dd.items()]
        defs.append('-DUNIT_%s' % re.sub(r'\W', '_', name))
        if unit.get('frame_only'):
            defs.append('-DWB_FRAME_ONLY')
        rc, out, err, _ = sh(['goto-cc', '-I' + HERE, '-I' + d, '-I' + os.path.join(VERIF, 'contracts')] + defs +
                             ['-Werror=implicit-function-declaration', '--function', harness, csrc, '-o', os.path.join(d, 'a.gb')], log=log)
        if rc != 0:
            raise Undecided('goto-cc failed: ' + (err or out)[-800:])
        if unit.get('add_library', True):
            rc, out, err, _ = sh(['goto-instrument', '--no-malloc-may-fail', '--add-library', os.path.join(d, 'a.gb'), os.path.join(d, 'a.gb')], log=log, timeout=120)
            if rc != 0:
                raise Undecided('goto-instrument --add-library failed: ' + (err or out)[-600:])
        if res.get('wf_loops'):
            bound_ = 2 + max([int(v_) for v_ in dd.values() if str(v_).isdigit()] + [3])
            us = ','.join('%s.%d:%d' % (fn_, k_, bound_) for fn_, n_ in res['wf_loops'] for k_ in range(n_))
            rc, out, err, _ = sh(['goto-instrument', '--unwindset', us, '--unwinding-assertions', os.path.join(d, 'a.gb'), os.path.join(d, 'a.gb')], log=log, timeout=120)
            if rc != 0:
                raise Undecided('goto-instrument --unwindset (type invariants) failed: ' + (err or out)[-600:])
        if nocontract and 'unwind_complete' in unit:
            # DFCC needs loops without contract to be unwound before instrumentation
            us = ','.join('%s.%d:%d' % (fn_, k_ - 1, unit['unwind_complete']) for fn_, k_ in nocontract)
            rc, out, err, _ = sh(['goto-instrument', '--unwindset', us, '--unwinding-assertions', os.path.join(d, 'a.gb'), os.path.join(d, 'a.gb')], log=log, timeout=120)
            if rc != 0:
                raise Undecided('goto-instrument --unwindset failed: ' + (err or out)[-600:])
        if 'bounded_partial' in unit:
            # bounded stand-in for functions DFCC cannot finish with loop contracts: every loop cut after N-1 iterations
            rc, out, err, _ = sh(['goto-instrument', '--unwind', str(unit['bounded_partial']), '--partial-loops', '--no-unwinding-assertions',
                                  os.path.join(d, 'a.gb'), os.path.join(d, 'a.gb')], log=log, timeout=300)
            if rc != 0:
                raise Undecided('goto-instrument --unwind failed: ' + (err or out)[-600:])
            res['bounded'] = 'BOUNDED: every loop cut after %d iteration(s) (partial loops); only obligations matching %r are considered' % (unit['bounded_partial'] - 1, unit.get('only', '.*'))
            nocontract = []
        if unit.get('havoc_loops'):
            # frame-only units for functions too large for loop contracts: every loop is replaced by its standard
            # over-approximation (havoc of everything the loop may write, one arbitrary iteration, back edge cut).
            # Sound for "no write outside the frame" (every write of the real loop body is still checked, from a state
            # that covers every iteration); nothing else is concluded from such a unit.
            rc, out, err, _ = sh(['goto-instrument', '--havoc-loops', os.path.join(d, 'a.gb'), os.path.join(d, 'a.gb')], log=log, timeout=300)
            if rc != 0:
                raise Undecided('goto-instrument --havoc-loops failed: ' + (err or out)[-600:])
            res['abstraction'] = 'loops over-approximated by goto-instrument --havoc-loops; only obligations matching %r are considered' % unit.get('only', '.*')
            nocontract = []
        gi = ['goto-instrument', '--no-malloc-may-fail', '--dfcc', harness]
        gi += ['--enforce-contract-rec' if unit.get('rec') else '--enforce-contract',
               '%s/%s__contract' % (unit['enforce'], unit['enforce'])]
        for r_ in unit.get('replace', []):
            gi += ['--replace-call-with-contract', '%s/%s__contract' % (r_, r_)]
        gi += ['--apply-loop-contracts']
        gi += [os.path.join(d, 'a.gb'), os.path.join(d, 'b.gb')]
        rc, out, err, _ = sh(gi, log=log, timeout=300)
        if rc != 0:
            raise Undecided('goto-instrument failed: ' + (err or out)[-1200:])
        timeout = unit.get('timeout_thorough', max(2400, 4 * unit.get('timeout', 300))) if tier == 'thorough' else unit.get('timeout', 300)
        if unit.get('frame_only'):
            # the unconstrained harness makes every index assertion fail: no traces (they dominate the run time), no standard checks
            base = ['cbmc', os.path.join(d, 'b.gb'), '--no-malloc-may-fail', '--no-standard-checks', '--json-ui']
            res['abstraction'] = 'frame-only: loops under the trivial invariant (havoc + one arbitrary iteration), callees ' \
                                 'replaced by arbitrary-result bodies, inputs unconstrained; only assigns-clause obligations are considered'
        else:
            base = ['cbmc', os.path.join(d, 'b.gb')] + (['--no-malloc-may-fail', '--no-standard-checks'] if unit.get('no_default_checks') else CBMC_FLAGS) + unit.get('checks', []) + ['--json-ui', '--trace']
        if nocontract:
            # loops without contract only exist in units that declare an unwinding bound (bounded stand-in)
            if 'unwind_complete' in unit:
                # loops with a constant trip count (dimension loops): unwound completely (before DFCC), the unwinding
                # assertions (part of the obligations) show the bound is not a restriction on inputs
                res['complete_unwinding'] = 'loops %s unwound %d times with unwinding assertions' % (nocontract, unit['unwind_complete'])
            elif 'unwind' in unit:
                base += ['--unwind', str(unit['unwind']), '--unwinding-assertions']
                res['bounded'] = 'unwind %d' % unit['unwind']
            else:
                raise Undecided('loops without contract and no declared unwinding bound: %s' % nocontract)
        base += ['--object-bits', str(unit.get('object_bits', 10))]
        backends = unit.get('backend', ['cadical', 'minisat'])
        if isinstance(backends, str):
            backends = [backends]
        out, be, dt = portfolio(base, backends, timeout, log)
        res['backend'] = be
        res['backends_tried'] = backends
        res['solver_seconds'] = round(dt, 1)
        if out is None:
            raise Undecided('solver timeout after %ds (%s)' % (timeout, '+'.join(backends)))
        parse_cbmc(out, res, unit)
    except cxx2c.ExtractionBreak as e:
        res['status'] = 'undecided'
        res['reason'] = 'extraction break: %s' % e
    except Undecided as e:
        res['status'] = 'undecided'
        res['reason'] = str(e)
    res['seconds'] = round(time.time() - t0, 1)
    return res


def parse_cbmc(out, res, unit):
    try:
        msgs = json.loads(out)
    except Exception:
        raise Undecided('cbmc output not parseable: ' + out[-600:])
    results = None
    texts = []
    for m in msgs:
        if 'result' in m:
            results = m['result']
        if 'messageText' in m:
            texts.append(m['messageText'])
    alltext = '\n'.join(texts)
    if re.search(r'ignoring (forall|exists|quantif)', alltext):
        raise Undecided('quantifier ignored by the back end')
    if results is None:
        raise Undecided('no result from cbmc: ' + alltext[-800:])
    res['obligations'] = len(results)
    exp_fail = [re.compile(x) for x in unit.get('expect_fail', [])]
    for r in results:
        if 'obj_set_create_indexed_by_object_id' in r.get('property', '') and r.get('status') != 'SUCCESS':
            raise Undecided('DFCC object table overflow (raise object_bits for this unit): %s' % r.get('property'))
        if 'undefined function should be unreachable' in r.get('description', '') and r.get('status') != 'SUCCESS':
            raise Undecided('a call to a body-less function is reachable (DFCC cuts the path there): %s' % r.get('property'))
    if unit.get('frame_only') and not unit.get('only'):
        unit = dict(unit, only=r'is assignable|assigns clause')
    only = re.compile(unit['only']) if unit.get('only') else None
    loopobl_all = len([1 for r in results if 'loop invariant' in r.get('description', '') or 'loop_invariant' in r.get('property', '') or 'decreases' in r.get('description', '')])
    if only is not None:
        results = [r for r in results if only.search(r.get('property', '') + ' ' + r.get('description', '')) or any(p.search(r.get('description', '')) for p in exp_fail)]
    fails = []
    reach_hit = set()
    ok = 0
    loopobl = 0
    for r in results:
        pname = r.get('property', '')
        desc = r.get('description', '')
        st = r.get('status')
        if 'loop invariant' in desc or 'loop_invariant' in pname or 'decreases' in desc:
            loopobl += 1
        isreach = any(p.search(pname) or p.search(desc) for p in exp_fail)
        if isreach:
            if st == 'FAILURE':
                reach_hit.add(desc)
            continue
        if st == 'SUCCESS':
            ok += 1
        else:
            fails.append(dict(property=pname, description=desc, status=st,
                              location=(r.get('sourceLocation') or {}), trace=compact_trace(r.get('trace'))))
    res['obligations'] = len(results) - len([1 for r in results if any(p.search(r.get('property', '')) or p.search(r.get('description', '')) for p in exp_fail)])
    res['discharged'] = ok
    res['loop_obligations'] = loopobl
    res['reachability_guards'] = len(reach_hit)
    if only is not None:
        loopobl = loopobl_all
        res['loop_obligations'] = loopobl
    if unit.get('loops') and loopobl == 0:
        raise Undecided('loop contracts were spliced but no loop obligations were generated')
    if exp_fail and not reach_hit:
        raise Undecided('vacuity guard: reachability assertion did not fail (contradictory precondition?)')
    if res['obligations'] == 0:
        raise Undecided('zero obligations generated')
    if fails:
        model = [f for f in fails if 'MODEL-BOUND' in f['description'] or 'unwinding assertion' in f['description']]
        real = [f for f in fails if f not in model]
        if real:
            res['status'] = 'failed'
            res['failed'] = real
        else:
            res['status'] = 'undecided'
            res['reason'] = 'model bound exceeded: ' + '; '.join(f['description'] for f in model[:3])
    else:
        res['status'] = 'proved'


def compact_trace(trace):
    """Keep the assignments of a cbmc trace as {lhs: value} (last write wins) plus the entry order."""
    if not trace:
        return None
    vals = {}
    for s in trace:
        if s.get('stepType') == 'assignment' and not s.get('hidden'):
            lhs = s.get('lhs')
            v = s.get('value') or {}
            if lhs is None:
                continue
            if 'data' in v:
                vals[lhs] = v['data']
            elif 'members' in v or 'elements' in v:
                flatten(lhs, v, vals)
    return vals


def flatten(prefix, v, vals):
    if 'data' in v:
        vals[prefix] = v['data']
    for m in v.get('members', []) or []:
        flatten('%s.%s' % (prefix, m.get('name')), m.get('value') or {}, vals)
    for e in v.get('elements', []) or []:
        flatten('%s[%s]' % (prefix, e.get('index')), e.get('value') or {}, vals)


def run_canaries(unit, work, tier='quick'):
    """Deliberate semantic edits of the *generated* C (never of /repo): each must make a named obligation fail,
    otherwise the contracts are too weak to notice that kind of change.  Returns list of (edit, ok, detail)."""
    out = []
    for i, c in enumerate(unit.get('canaries', [])):
        pat, rep, why = c[0], c[1], c[2]
        harmless = len(c) > 3 and c[3] == 'harmless'      # an edit that keeps the property: must still be proved
        u2 = dict(unit)
        u2['name'] = '%s__canary%d' % (unit['name'], i)
        u2['defines'] = dict(unit.get('defines', {}))
        u2['defines']['UNIT_%s' % re.sub(r'\W', '_', unit['name'])] = 1
        u2['_mutate'] = (pat, rep)
        r = run_unit(u2, work, tier)
        ok = (r['status'] == 'proved') if harmless else (r['status'] == 'failed')
        out.append(dict(edit=why, kind='harmless edit, must still verify' if harmless else 'breaking edit, must fail', caught=ok,
                        by=[f['property'] for f in r.get('failed', [])][:3], status=r['status'], reason=r.get('reason', '')))
    return out
