#!/usr/bin/env python3
"""Dump the clang JSON AST of one qualified name from a real TU of /repo (debug helper + library)."""
import json, subprocess, sys, os, hashlib

REPO = os.environ.get('GWB_REPO', '/repo')
BASE_FLAGS = ['-std=c++14', '-DNDEBUG', '-DWB_WITH_ZLIB', '-DWB_USE_FP_EXCEPTIONS',
              '-DVTU11_ENABLE_ZLIB', '-I%s/include' % REPO, '-I%s/tests' % REPO]

def config_include():
    for d in ('%s/_build/include' % REPO, '/var/tmp/gwbv-config/include'):
        if os.path.exists(d + '/world_builder/config.h'):
            return d
    return None

def parse_docs(s):
    dec = json.JSONDecoder(); i = 0; docs = []
    n = len(s)
    while i < n:
        while i < n and s[i] in ' \n\r\t': i += 1
        if i >= n: break
        if s[i] != '{':
            j = s.find('\n', i); i = j + 1 if j >= 0 else n; continue
        o, j = dec.raw_decode(s, i); docs.append(o); i = j
    return docs

def dump(tu, filt, extra=()):
    inc = config_include()
    cmd = ['clang++'] + BASE_FLAGS + (['-I' + inc] if inc else []) + list(extra) + \
          ['-fsyntax-only', '-Xclang', '-ast-dump=json', '-Xclang', '-ast-dump-filter=' + filt, tu]
    r = subprocess.run(cmd, capture_output=True, text=True)
    if r.returncode != 0 and not r.stdout.strip():
        raise RuntimeError('clang failed on %s: %s' % (tu, r.stderr[-2000:]))
    return parse_docs(r.stdout)

def show(n, d=0, maxd=60, out=sys.stdout):
    if not isinstance(n, dict): return
    if n.get('kind', '').endswith('Comment'): return
    t = n.get('type', {}) or {}
    rd = n.get('referencedDecl') or {}
    md = n.get('referencedMemberDecl', '')
    out.write('  ' * d + ' '.join(str(x) for x in [n.get('kind', '?'), n.get('name', ''), n.get('opcode', ''),
              n.get('value', ''), '<' + (t.get('desugaredQualType') or t.get('qualType', '')) + '>' if t else '',
              n.get('valueCategory', ''), n.get('castKind', ''), rd.get('kind', ''), rd.get('name', ''), md,
              'postfix' if n.get('isPostfix') else ''] if x != '') + '\n')
    if d < maxd:
        for c in n.get('inner', []): show(c, d + 1, maxd, out)

if __name__ == '__main__':
    docs = dump(sys.argv[1], sys.argv[2])
    for d in docs:
        print('=====', d.get('kind'), d.get('name'), (d.get('loc') or {}).get('line'))
        show(d, maxd=int(sys.argv[3]) if len(sys.argv) > 3 else 60)
