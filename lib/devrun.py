import sys, os, json, importlib.util
sys.path.insert(0, os.path.dirname(os.path.abspath(__file__)))
import pipeline
spec = importlib.util.spec_from_file_location('prop', sys.argv[1]); m = importlib.util.module_from_spec(spec); spec.loader.exec_module(m)
for u in m.UNITS:
    if len(sys.argv) > 2 and u['name'] not in sys.argv[2:]: continue
    r = pipeline.run_unit(u, '/var/tmp/gwbv-dev', os.environ.get('VERIF_TIER', 'quick'))
    fs = r.pop('failed'); 
    print(json.dumps({k: v for k, v in r.items() if k not in ('dropped','translated')}, indent=1))
    for f in fs: print('FAILED', f['property'], f['description'], f['location'].get('line'))
    if fs and fs[0].get('trace'): print({k:v for k,v in list(fs[0]['trace'].items())[-40:]})
    if os.environ.get('CANARIES'):
        for c in pipeline.run_canaries(u, '/var/tmp/gwbv-dev'): print('CANARY', c)
