#!/usr/bin/env python3
"""Regenerates /verif/MANIFEST.json from props/*.py (claimed properties) and NOT_APPLICABLE below."""
import json, os, importlib.util, sys
VERIF = os.path.dirname(os.path.dirname(os.path.abspath(__file__)))
sys.path.insert(0, os.path.join(VERIF, 'lib'))

NOT_APPLICABLE = {
    'C08': 'relational statement over two whole-pipeline runs "up to rounding" under arbitrary rigid motions: needs real-number reasoning through products and trigonometry, outside what CBMC contracts express or the installed solvers decide (DESIGN section 2 and 6/C08)',
    'C20': 'every clause is a real-valued inequality or monotonicity fact through erfc/exp/Fourier sums; bit-exactly false by rounding and undecided with tolerance on every installed back end (probe: one-product envelope undecided after 600 s); the decidable part (documented expressions) is C05',
}
PENDING = 'contracts planned in DESIGN section 6 not completed yet; not claimed until the check is green on the unchanged tree'
NOT_REACHED = {
    'C10': 'segment/section/feature model inheritance lives in SubductingPlate/Fault::parse_entries and the interpolation between sections in their properties functions; the latter translate mechanically but the DFCC query does not finish within 900 s (DESIGN 15), the former were not brought under contract - not claimed rather than decided by another technique',
    'C13': 'totality/finiteness at degenerate locations is a statement about the whole query path including the 650-line distance routine and the slab/fault evaluators that DFCC does not finish on (DESIGN 15); the CBMC safety obligations (bounds, pointers, overflow, division) of every function that IS under contract are part of the other checks, no separate claim is made',
    'C17': 'gwb-dat main (500 lines of iostream parsing and printing) was not brought under contract; the candidates of DESIGN 7.1 for it stay candidates',
    'C18': 'gwb-grid main (mesh construction, vtu output) was not brought under contract; only its ThreadPool::parallel_for is (C14)',
}


def main():
    ids = [json.loads(l)['id'] for l in open(os.path.join(VERIF, 'properties.jsonl'))]
    checks = []
    na = []
    for pid in ids:
        path = os.path.join(VERIF, 'props', pid + '.py')
        if pid in NOT_APPLICABLE or not os.path.exists(path):
            na.append(dict(property_id=pid, reason=NOT_APPLICABLE.get(pid, NOT_REACHED.get(pid, PENDING))))
            continue
        spec = importlib.util.spec_from_file_location('p', path)
        m = importlib.util.module_from_spec(spec)
        spec.loader.exec_module(m)
        meta = m.META
        if meta.get('disabled'):
            na.append(dict(property_id=pid, reason=meta['disabled']))
            continue
        checks.append(dict(
            property_id=pid,
            quick_cmd='./check %s --tier quick' % pid,
            thorough_cmd='./check %s --tier thorough' % pid,
            evidence_file='evidence/%s.json' % pid,
            replay_cmd_template='./check %s --replay {path}' % pid,
            engine='cbmc-contracts',
            level_claimed=dict(category='proof', text=meta['level_text'], design_ref='DESIGN.md section 6, ' + pid),
            level_note=meta['level_note'],
            technique=meta['technique']))
    man = dict(
        version=1,
        setup_cmd='./setup.sh',
        hooks=dict(guard='GWB_VERIF', enable='-DGWB_VERIF (CMAKE_CXX_FLAGS) - reserved guard name; no hook was added to /repo and no check depends on one',
                   baseline_off_cmd='cmake --build /repo/_build -j16 && ctest --test-dir /repo/_build -j8 --timeout 900',
                   source_commits=[], add_only=True),
        engines=[dict(name='cbmc-contracts', path='check', serves_properties=[c['property_id'] for c in checks],
                      kind_free_text='contract-based deductive verification: cxx2c (clang JSON AST -> C, every run) + CBMC 6.11 DFCC function/loop contracts, SAT/SMT portfolio, native replay on the real library')],
        checks=checks,
        not_applicable=na,
        notes='Exit codes of ./check: 0 all obligations discharged; 1 VIOLATION (failed named obligation, replayed natively); 2 undecided (extraction break / timeout / model bound), never reported as a violation. Open findings: known_findings.jsonl.')
    with open(os.path.join(VERIF, 'MANIFEST.json'), 'w') as f:
        json.dump(man, f, indent=1)
    print('MANIFEST.json: %d checks, %d not_applicable' % (len(checks), len(na)))


if __name__ == '__main__':
    main()
