#!/bin/bash
# confirm_seed.sh <seed id> <worktree> <demo run command (run inside <worktree>/_seed)>
# Confirms a seeded change in its scratch worktree: with the change the test suite passes (except the baseline's known
# failure) and the demo fails; without it the demo passes.  Copies patch/demo to /verif/seeded/<id>/ and prints a summary.
set -u
ID=$1; WT=$2; RUN=$3
OUT=/verif/seeded/$ID; mkdir -p $OUT
cd $WT || exit 2
cp _seed/patch.diff $OUT/patch.diff; cp _seed/demo.cc $OUT/; cp _seed/*.wb _seed/*.grid $OUT/ 2>/dev/null; cp _seed/README.txt $OUT/README_agent.txt
git checkout -q -- source include 2>/dev/null
git apply $OUT/patch.diff || { echo "patch does not apply"; exit 2; }
cmake --build _build -j16 > /dev/null 2>&1 || { echo "BUILD FAILED with change"; exit 2; }
FAILED=$(ctest --test-dir _build -j8 --timeout 900 2>&1 | grep -E "^\s+[0-9]+ - " | grep -v grid_fault_edge_limits | wc -l)
g++ -std=c++14 -O1 -I$WT/include -I$WT/_build/include _seed/demo.cc _build/lib/libWorldBuilder.a -lz -lpthread -o _seed/demo_confirm 2>/dev/null || { echo "demo compile failed"; exit 2; }
(cd _seed && eval "${RUN/.\/demo/./demo_confirm}" > $OUT/demo_with_change.log 2>&1); WITH=$?
git apply -R $OUT/patch.diff
cmake --build _build -j16 > /dev/null 2>&1
g++ -std=c++14 -O1 -I$WT/include -I$WT/_build/include _seed/demo.cc _build/lib/libWorldBuilder.a -lz -lpthread -o _seed/demo_confirm 2>/dev/null
(cd _seed && eval "${RUN/.\/demo/./demo_confirm}" > $OUT/demo_without_change.log 2>&1); WITHOUT=$?
echo "seed=$ID tests_failing_with_change(other than baseline)=$FAILED demo_exit_with_change=$WITH demo_exit_without_change=$WITHOUT"
