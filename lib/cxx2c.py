#!/usr/bin/env python3
"""cxx2c - mechanical translation of selected C++ functions of /repo to C, from clang's typed JSON AST.

Run on every check; never edited by hand output.  Anything outside the stated subset raises
ExtractionBreak (the check exits 2: never a pass, never a violation).

What the extraction drops or changes (exhaustive list, also printed into every evidence file):
  comments; debug-only assertions (WBAssert is empty under NDEBUG, as in the binaries the test
  suite runs); stream output statements (operator<< chains on std::ostream / stringstream);
  exception messages (throw -> wb_thrown=1; return zero value); object identity of temporaries
  (hoisted into C locals in clang's left-to-right order); heap allocation failure; `this` becomes
  an explicit struct pointer whose fields are generated from the FieldDecls the code uses;
  virtual dispatch and unique_ptr become plain pointers and calls of contract stubs; libm calls
  become wb_<name> (uninterpreted under CBMC, libm natively); std::vector<T> -> {T*data;size_t n,cap}
  with a capacity assertion (model bound); std::array<T,N> -> struct {T e[N]}.
"""
import json, os, re, sys, subprocess, hashlib
sys.path.insert(0, os.path.dirname(os.path.abspath(__file__)))
import fpx

sys.setrecursionlimit(10000)
REPO = os.environ.get('GWB_REPO', '/repo')


class ExtractionBreak(Exception):
    pass


def brk(msg, node=None):
    loc = ''
    if node is not None:
        r = node.get('range', {}).get('begin', {})
        loc = ' at line %s' % (r.get('line') or r.get('expansionLoc', {}).get('line') or '?')
        msg += ' [%s]' % node.get('kind')
    raise ExtractionBreak(msg + loc)


# ----------------------------------------------------------------------------- AST loading

def clang_flags():
    flags = ['-std=c++14', '-DNDEBUG', '-DWB_WITH_ZLIB', '-DWB_USE_FP_EXCEPTIONS', '-DVTU11_ENABLE_ZLIB',
             '-I%s/include' % REPO, '-I%s/tests' % REPO]
    cands = ['%s/_build/include' % REPO, os.environ.get('GWB_CONFIG_INC', '/nonexistent'), '/var/tmp/gwbv-config/include']
    for d in cands:
        if os.path.exists(d + '/world_builder/config.h'):
            flags.append('-I' + d)
            return flags
    # generated header missing: run the cmake *configure* step only, in scratch space
    r = subprocess.run(['cmake', '-G', 'Ninja', '-S', REPO, '-B', '/var/tmp/gwbv-config', '-DWB_ENABLE_TESTS=OFF',
                        '-DWB_ENABLE_PYTHON=OFF', '-DWB_ENABLE_HELPER_TARGETS=OFF', '-DWB_MAKE_FORTRAN_WRAPPER=OFF'],
                       capture_output=True, text=True)
    if os.path.exists('/var/tmp/gwbv-config/include/world_builder/config.h'):
        flags.append('-I/var/tmp/gwbv-config/include')
        return flags
    raise ExtractionBreak('no generated config.h found and cmake configure failed: %s' % r.stderr[-500:])


def parse_docs(s):
    dec = json.JSONDecoder()
    i = 0
    docs = []
    n = len(s)
    while i < n:
        while i < n and s[i] in ' \n\r\t':
            i += 1
        if i >= n:
            break
        if s[i] != '{':
            j = s.find('\n', i)
            i = j + 1 if j >= 0 else n
            continue
        o, j = dec.raw_decode(s, i)
        docs.append(o)
        i = j
    return docs


FUNC_KINDS = ('FunctionDecl', 'CXXMethodDecl', 'CXXConstructorDecl', 'CXXDestructorDecl', 'CXXConversionDecl')


class TU:
    """One real translation unit of /repo dumped with -ast-dump-filter=<filt> (whole namespace)."""

    def __init__(self, path, filt='WorldBuilder', cache_dir=None):
        self.path = path
        cmd = ['clang++'] + clang_flags() + ['-fsyntax-only', '-Xclang', '-ast-dump=json'] + \
              (['-Xclang', '-ast-dump-filter=' + filt] if filt else []) + [path]
        r = subprocess.run(cmd, capture_output=True, text=True)
        if not r.stdout.strip():
            raise ExtractionBreak('clang produced no AST for %s: %s' % (path, r.stderr[-1500:]))
        if ' error: ' in r.stderr:
            raise ExtractionBreak('clang errors in %s: %s' % (path, r.stderr[-1500:]))
        self.docs = parse_docs(r.stdout)
        if not filt:
            # whole translation unit (needed for functions outside namespace WorldBuilder: extern "C" wrappers,
            # main of the apps): keep namespace WorldBuilder, extern "C" blocks and free functions, drop the rest
            keep = []
            for d in self.docs:
                for c in d.get('inner', []) if d.get('kind') == 'TranslationUnitDecl' else [d]:
                    k = c.get('kind')
                    if (k == 'NamespaceDecl' and c.get('name') in ('WorldBuilder', 'wrapper_cpp')) or k in ('LinkageSpecDecl', 'FunctionDecl', 'CXXRecordDecl', 'FunctionTemplateDecl', 'VarDecl', 'EnumDecl'):
                        keep.append(c)
            self.docs = keep
        del r
        self.by_id = {}
        self.parent = {}
        self.defs = {}        # decl id -> defining node (with body)
        self.funcs = []       # all function-like nodes with a body
        self.records = {}     # qualified record name -> node (definition)
        self.enums = {}
        self.globals = {}
        for d in self.docs:
            self._index(d, None)
        # map declarations to definitions through previousDecl chains
        for f in self.funcs:
            p = f
            seen = 0
            self.defs[f['id']] = f
            while p is not None and p.get('previousDecl') and seen < 10:
                pid = p['previousDecl']
                self.defs[pid] = f
                p = self.by_id.get(pid)
                seen += 1

    def _index(self, n, parent):
        if not isinstance(n, dict):
            return
        k = n.get('kind', '')
        if k.endswith('Comment'):
            return
        if 'id' in n:
            old = self.by_id.get(n['id'])
            # clang prints a node fully once and as a shallow reference elsewhere: keep the full one
            if old is None or (not old.get('inner') and n.get('inner')) or (old.get('inner') is None and len(n) > len(old)):
                self.by_id[n['id']] = n
                self.parent[n['id']] = parent
        if k in FUNC_KINDS and any(c.get('kind') == 'CompoundStmt' for c in n.get('inner', []) if isinstance(c, dict)):
            self.funcs.append(n)
        if k in ('CXXRecordDecl', 'ClassTemplateSpecializationDecl') and n.get('completeDefinition'):
            self.records.setdefault(self._qual_of(n, parent), n)
        if k == 'EnumDecl' and n.get('inner'):
            self.enums.setdefault(self._qual_of(n, parent), n)
        for c in n.get('inner', []) or []:
            self._index(c, n)

    def _qual_of(self, n, parent):
        parts = [self._seg(n)]
        p = parent
        while p is not None:
            if p.get('kind') in ('NamespaceDecl', 'CXXRecordDecl', 'ClassTemplateSpecializationDecl', 'EnumDecl'):
                if p.get('name'):
                    parts.append(self._seg(p))
            p = self.parent.get(p.get('id'))
        return '::'.join(reversed(parts))

    def _seg(self, n):
        name = n.get('name', '')
        if n.get('kind') == 'ClassTemplateSpecializationDecl':
            args = []
            for c in n.get('inner', []):
                if c.get('kind') == 'TemplateArgument':
                    if 'value' in c:
                        args.append(str(c['value']))
                    elif 'type' in c:
                        args.append(c['type']['qualType'])
            name += '<' + ', '.join(args) + '>'
        return name

    def qual(self, n):
        """Qualified name of a declaration (uses the semantic parent for out-of-line definitions)."""
        pid = n.get('parentDeclContextId')
        if pid and pid in self.by_id:
            pn = self.by_id[pid]
            return self.qual(pn) + '::' + self._seg(n) if pn.get('name') else self._seg(n)
        return self._qual_of(n, self.parent.get(n.get('id')))

    def semantic_parent(self, n):
        pid = n.get('parentDeclContextId')
        if pid and pid in self.by_id:
            return self.by_id[pid]
        p = self.parent.get(n.get('id'))
        while p is not None and p.get('kind') in ('FunctionTemplateDecl', 'ClassTemplateDecl', 'LinkageSpecDecl'):
            p = self.parent.get(p.get('id'))
        return p

    def find_function(self, qual, sig=None, want_body=True, first_of_many=False):
        c = []
        for f in self.funcs:
            if self.qual(f) == qual and (sig is None or sig in f['type']['qualType']):
                c.append(f)
        if not c:
            return None
        if len(c) > 1:
            # identical instantiations may be listed more than once; require equal signatures
            sigs = set(x['type']['qualType'] for x in c)
            if len(sigs) > 1 and not first_of_many:
                raise ExtractionBreak('ambiguous function %s sig=%s: %s' % (qual, sig, sorted(sigs)))
        return c[0]


def sig_key(qt):
    """Normalised function signature: top-level cv of by-value parameters and 2U/2 spelling ignored."""
    qt = re.sub(r'([<, ])(\d+)U([>,])', r'\1\2\3', qt).replace('::WorldBuilder::', 'WorldBuilder::')
    depth = 0
    start = None
    end = None
    for i, ch in enumerate(qt):
        if ch == '<':
            depth += 1
        elif ch == '>':
            depth -= 1
        elif ch == '(' and depth == 0 and start is None:
            start = i
        elif ch == ')' and depth == 0:
            end = i
    if start is None or end is None:
        return qt
    params = split_targs(qt[start + 1:end])
    np = []
    for p_ in params:
        p_ = p_.strip()
        if not (p_.endswith('&') or p_.endswith('*')):
            p_ = strip_cv(p_)
        p_ = p_.replace('WorldBuilder::', '')
        np.append(p_)
    return qt[:start].replace('WorldBuilder::', '') + '(' + ', '.join(np) + ')' + qt[end + 1:]


_TU_CACHE = {}
import threading
_TU_LOCK = threading.Lock()
_TU_LOCKS = {}


def get_tu(path, filt='WorldBuilder'):
    key = (path, filt)
    with _TU_LOCK:
        lk = _TU_LOCKS.setdefault(key, threading.Lock())
    with lk:
        if key not in _TU_CACHE:
            _TU_CACHE[key] = TU(path, filt)
    return _TU_CACHE[key]


def camel_to_snake(s):
    return re.sub(r'(?<=[a-z0-9])([A-Z])', r'_\1', s).lower()


def home_tu(qual):
    """Where a WorldBuilder function is defined, by the repository's naming convention."""
    parts = [p for p in re.sub(r'<[^>]*>', '', qual).split('::')]
    if parts and parts[0] == 'WorldBuilder':
        parts = parts[1:]
    cands = []
    for cut in range(len(parts), 0, -1):
        segs = [camel_to_snake(p) for p in parts[:cut]]
        cands.append(os.path.join(REPO, 'source/world_builder', *segs) + '.cc')
        if len(segs) > 1:
            cands.append(os.path.join(REPO, 'source/world_builder', *segs[1:]) + '.cc')
    for c in cands:
        if os.path.exists(c):
            return c
    return None


# ----------------------------------------------------------------------------- types

BUILTIN = {
    'double': 'double', 'float': 'float', 'int': 'int', 'unsigned int': 'unsigned int', 'long': 'long',
    'unsigned long': 'unsigned long', 'bool': '_Bool', 'char': 'char', 'unsigned char': 'unsigned char',
    'void': 'void', 'long long': 'long long', 'unsigned long long': 'unsigned long long', 'short': 'short',
    'unsigned short': 'unsigned short', 'long double': 'long double', 'signed char': 'signed char',
}
ABBR = {'double': 'double', 'unsigned int': 'uint', 'unsigned long': 'ulong', 'int': 'int', '_Bool': 'bool',
        'long': 'long', 'char': 'char', 'unsigned char': 'uchar'}


def split_targs(s):
    out = []
    depth = 0
    cur = ''
    for ch in s:
        if ch in '<([':
            depth += 1
        elif ch in '>)]':
            depth -= 1
        if ch == ',' and depth == 0:
            out.append(cur.strip())
            cur = ''
        else:
            cur += ch
    if cur.strip():
        out.append(cur.strip())
    return out


def strip_cv(t):
    t = t.strip()
    changed = True
    while changed:
        changed = False
        for q in ('const ', 'volatile ', 'struct ', 'class ', 'enum '):
            if t.startswith(q):
                t = t[len(q):].strip()
                changed = True
        for q in (' const', ' volatile'):
            if t.endswith(q):
                t = t[:-len(q)].strip()
                changed = True
    return t


class CType:
    """A translated type: C spelling + kind information."""

    def __init__(self, c, kind, **kw):
        self.c = c            # C type text
        self.kind = kind      # scalar | array | vector | record | ptr | enum | string | opaque | void
        self.__dict__.update(kw)

    def __repr__(self):
        return 'CType(%s,%s)' % (self.c, self.kind)


class Translator:
    def __init__(self, config=None):
        self.cfg = config or {}
        self.aliases = self.cfg.get('aliases', {})      # "qual|sigsubstr" -> cname
        self.stub = set(self.cfg.get('stub', []))        # cnames never given a body
        self.nothrow_stubs = set(self.cfg.get('nothrow', []))
        self.type_defs = []            # ordered list of (name, text)
        self.type_seen = {}
        self.record_fields = {}        # struct name -> ordered dict field -> ctype text
        self.record_nodes = {}
        self.funcs = {}                # cname -> dict(proto, body, node, tu, throws, loops)
        self.order = []
        self.pending = []
        self.enum_emitted = {}
        self.global_consts = {}
        self.dropped = []              # notes of what was dropped
        self.shim_used = set()
        self.vec_types = {}
        self.arr_types = {}
        self.tmp_counter = 0
        self.outline = bool(self.cfg.get('outline_fp'))
        self.outline_all = self.cfg.get('outline_fp') == 'all'
        self.fp_decls = {}

    # ------------------------------------------------------------------ type translation
    def ctype(self, qt, tu, node=None):
        """Translate a (desugared) C++ type string. Returns CType; .ref says whether it was T& / T&&."""
        t = qt.strip()
        ref = False
        if t.endswith('&&'):
            t = t[:-2].strip()
            ref = True
        elif t.endswith('&'):
            t = t[:-1].strip()
            ref = True
        const = t.startswith('const ') or t.endswith(' const')
        base = self._ctype_noref(t, tu, node)
        r = CType(base.c, base.kind, **{k: v for k, v in base.__dict__.items() if k not in ('c', 'kind')})
        r.ref = ref
        r.const = const
        return r

    def _ctype_noref(self, t, tu, node):
        t = strip_cv(t)
        t = re.sub(r'([<, ])(\d+)U([>,])', r'\1\2\3', t)
        if t.startswith('::'):
            t = t[2:]
        m = re.match(r'^(.*?)\s*\(\*\)\[(\d+)\]$', t)
        if m:
            inner = self._ctype_noref('std::array<%s, %s>' % (strip_cv(m.group(1)), m.group(2)), tu, node)
            return CType(inner.c + ' *', 'ptr', pointee=inner)
        m = re.match(r'^(.*?)\s*\[(\d+)\]$', t)
        if m and not t.startswith('std::'):
            return self._ctype_noref('std::array<%s, %s>' % (strip_cv(m.group(1)), m.group(2)), tu, node)
        if t.endswith('*'):
            inner = self._ctype_noref(t[:-1], tu, node)
            return CType(inner.c + ' *', 'ptr', pointee=inner)
        t = {'size_t': 'unsigned long', 'std::size_t': 'unsigned long', 'unsigned': 'unsigned int'}.get(t, t)
        if t in BUILTIN:
            return CType(BUILTIN[t], 'void' if t == 'void' else 'scalar')
        m = re.match(r'^(?:std::)?array<(.*)>$', t)      # nested template arguments are printed unqualified
        if m:
            a = split_targs(m.group(1))
            el = self._ctype_noref(a[0], tu, node)
            n = int(re.sub(r'[uUlL]+$', '', a[1]))
            name = 'arr_%s_%d' % (self._abbr(el), n)
            if name not in self.type_seen:
                self.type_seen[name] = True
                self.type_defs.append((name, 'struct %s { %s e[%d]; };' % (name, el.c, n)))
            return CType('struct ' + name, 'array', elem=el, n=n, name=name)
        m = re.match(r'^(?:std::)?vector<(.*)>$', t)      # clang prints nested template arguments of instantiations unqualified
        if m:
            a = split_targs(m.group(1))
            el = self._ctype_noref(a[0], tu, node)
            name = 'vec_%s' % self._abbr(el)
            if name not in self.type_seen:
                self.type_seen[name] = True
                self.type_defs.append((name, 'struct %s { %s data[WB_CAP_%s]; size_t n; };' % (name, el.c, name)))
                self.vec_types[name] = el
            return CType('struct ' + name, 'vector', elem=el, name=name)
        m = re.match(r'^std::(unique_ptr|shared_ptr)<(.*)>$', t)
        if m:
            a = split_targs(m.group(2))
            inner = self._ctype_noref(a[0], tu, node)
            return CType(inner.c + ' *', 'ptr', pointee=inner, smart=True)
        if t in ('std::basic_string<char>', 'std::string', 'std::__cxx11::basic_string<char>'):
            self.shim_used.add('string')
            return CType('struct wb_string', 'string')
        if re.match(r'^std::mersenne_twister_engine<', t) or t == 'std::mt19937':
            self.shim_used.add('mt19937')
            return CType('struct wb_mt19937', 'opaque')
        m = re.match(r'^(?:typename )?__gnu_cxx::__enable_if<.*,\s*([\w ]+)>::__type$', t)
        if m:
            return self._ctype_noref(m.group(1), tu, node)
        if t.startswith('(lambda at '):
            self.shim_used.add('thread')
            return CType('struct wb_lambda', 'opaque')
        if t == 'std::thread':
            self.shim_used.add('thread')
            return CType('struct wb_thread', 'thread')
        if re.match(r'^std::uniform_real_distribution<', t):
            self.shim_used.add('mt19937')
            return CType('struct wb_uniform_real', 'opaque')
        if re.match(r'^std::normal_distribution<', t):
            self.shim_used.add('mt19937')
            return CType('struct wb_normal_dist', 'opaque')
        m = re.match(r'^std::pair<(.*)>$', t)
        if m:
            a = split_targs(m.group(1))
            e1 = self._ctype_noref(a[0], tu, node)
            e2 = self._ctype_noref(a[1], tu, node)
            name = 'pair_%s_%s' % (self._abbr(e1), self._abbr(e2))
            if name not in self.type_seen:
                self.type_seen[name] = True
                self.type_defs.append((name, 'struct %s { %s first; %s second; };' % (name, e1.c, e2.c)))
            return CType('struct ' + name, 'record', name=name, pair=(e1, e2))
        if t.startswith('__gnu_cxx::__normal_iterator<'):
            a = split_targs(t[len('__gnu_cxx::__normal_iterator<'):-1])
            return self._ctype_noref(a[0], tu, node)
        if t.startswith('std::') or t.startswith('rapidjson::') or t.startswith('__gnu_cxx::'):
            raise ExtractionBreak('type outside the translated subset: %s' % t)
        # user types: enum or record
        q = t if t.startswith('WorldBuilder::') or '::' not in t else t
        for cand in (q, 'WorldBuilder::' + q):
            if cand in tu.enums:
                return self._enum(cand, tu)
            if cand in tu.records:
                return self._record(cand, tu)
        # records may be known under a shorter printed name (nested in current namespaces)
        ec = [name for name in tu.enums if name.endswith('::' + q)]
        rc = [name for name in tu.records if name.endswith('::' + q)]
        if len(ec) + len(rc) > 1:
            raise ExtractionBreak('ambiguous unqualified type %s: %s' % (q, (ec + rc)[:4]))
        if ec:
            return self._enum(ec[0], tu)
        if rc:
            return self._record(rc[0], tu)
        raise ExtractionBreak('unknown type %s' % t)

    def _abbr(self, ct):
        if ct.c in ABBR:
            return ABBR[ct.c]
        s = ct.c.replace('struct ', '').replace(' *', '_p').replace(' ', '_')
        return s

    def _enum(self, qual, tu):
        name = 'enum_' + self._cident(qual)
        if name not in self.type_seen:
            self.type_seen[name] = True
            n = tu.enums[qual]
            items = []
            nxt = 0
            for c in n.get('inner', []):
                if c.get('kind') != 'EnumConstantDecl':
                    continue
                val = None
                for cc in c.get('inner', []) or []:
                    v = self._const_int(cc)
                    if v is not None:
                        val = v
                if val is None:
                    val = nxt
                nxt = val + 1
                items.append('%s = %d' % (self._enumconst(qual, c['name']), val))
            self.type_defs.append((name, 'enum %s { %s };' % (name, ', '.join(items))))
        return CType('enum ' + name, 'enum', qual=qual)

    def _enumconst(self, enum_qual, cname):
        scope = enum_qual.rsplit('::', 1)[0] if '::' in enum_qual else ''
        return 'E_' + self._cident(enum_qual.split('::')[-1]) + '_' + cname

    def _const_int(self, n):
        if n.get('kind') == 'ConstantExpr' and 'value' in n:
            return int(n['value'])
        if n.get('kind') == 'IntegerLiteral':
            return int(n['value'])
        for c in n.get('inner', []) or []:
            v = self._const_int(c)
            if v is not None:
                return v
        return None

    def _cident(self, qual):
        q = qual
        if q.startswith('WorldBuilder::'):
            q = q[len('WorldBuilder::'):]
        q = re.sub(r'<\s*(\w+)\s*>', r'\1', q)
        q = q.replace('::', '_')
        q = re.sub(r'[^A-Za-z0-9_]', '_', q)
        return q

    def _record(self, qual, tu):
        name = self._cident(qual)
        if name not in self.record_fields:
            self.record_fields[name] = None   # in progress
            node = tu.records[qual]
            self.record_nodes[name] = (node, tu, qual)
            fields = []
            complete = True
            bases = []
            for b in node.get('bases', []) or []:
                bq = b['type'].get('desugaredQualType') or b['type']['qualType']
                bt = self._ctype_noref(bq, tu, node)
                bases.append(bt)
                fields.append(('base_', bt.c, bt))
            for c in node.get('inner', []):
                if c.get('kind') == 'FieldDecl':
                    qt = c['type'].get('desugaredQualType') or c['type']['qualType']
                    try:
                        ft = self.ctype(qt, tu, c)
                        if ft.ref:
                            fields.append((c['name'], ft.c + ' *', ft))
                        else:
                            fields.append((c['name'], ft.c, ft))
                    except ExtractionBreak as e:
                        complete = False
                        self.dropped.append('field %s::%s of untranslated type %s omitted' % (qual, c['name'], qt))
            self.record_fields[name] = dict(fields=fields, complete=complete, qual=qual)
            body = ' '.join('%s %s;' % (ft, fn) if not ft.endswith('*') else '%s%s;' % (ft, fn) for fn, ft, _ in fields)
            if not fields:
                body = 'char empty_;'
            self.type_defs.append((name, 'struct %s { %s };' % (name, body)))
        return CType('struct ' + name, 'record', name=name, qual=qual)

    def zero(self, ct):
        if ct.kind == 'void':
            return ''
        if ct.kind in ('scalar', 'enum', 'ptr'):
            return '(%s)0' % ct.c
        return '(%s){0}' % ct.c

    # ------------------------------------------------------------------ naming
    def cname_for(self, tu, node):
        qual = tu.qual(node)
        sig = node['type']['qualType']
        for key, cn in self.aliases.items():
            kq, _, ks = key.partition('|')
            if kq == qual and (not ks or ks in sig):
                return cn
        base = self._cident(qual)
        opmap = {'operator[]': 'op_index', 'operator()': 'op_call', 'operator+': 'op_add', 'operator-': 'op_sub',
                 'operator*': 'op_mul', 'operator/': 'op_div', 'operator=': 'op_assign', 'operator+=': 'op_addassign',
                 'operator-=': 'op_subassign', 'operator*=': 'op_mulassign', 'operator/=': 'op_divassign',
                 'operator==': 'op_eq', 'operator!=': 'op_ne', 'operator<': 'op_lt'}
        nm = node.get('name', '')
        if nm in opmap:
            base = self._cident(qual.rsplit('::', 1)[0]) + '_' + opmap[nm] if '::' in qual else opmap[nm]
        if node.get('kind') == 'CXXConstructorDecl':
            base = self._cident(qual.rsplit('::', 1)[0]) + '_ctor'
        # overload suffix from parameter types
        params = [c for c in node.get('inner', []) if c.get('kind') == 'ParmVarDecl']
        suffix = ''
        if self._overloaded(tu, node, qual):
            parts = []
            for p in params:
                qt = p['type'].get('desugaredQualType') or p['type']['qualType']
                s = re.sub(r'WorldBuilder::|std::|const |&|\s', '', qt)
                s = re.sub(r'[^A-Za-z0-9]+', '_', s).strip('_')
                parts.append(s[:24])
            suffix = '__' + '_'.join(parts) if parts else '__void'
            if 'const' in sig.rsplit(')', 1)[-1] and node.get('kind') == 'CXXMethodDecl':
                suffix += '_c'
        par_ = tu.parent.get(node.get('id'))
        if par_ is not None and par_.get('kind') == 'FunctionTemplateDecl':
            # instantiations of one function template differ by template arguments: add them (else the return type)
            targs = self.template_args(node)
            if targs:
                rt = '_'.join(re.sub(r'WorldBuilder::|std::|const |&|\s', '', t_) for t_ in targs)
            else:
                rt = re.sub(r'WorldBuilder::|std::|const |&|\s', '', self._ret_type(node))
            suffix += '__ret_' + re.sub(r'[^A-Za-z0-9]+', '_', rt).strip('_')[:60]
        return base + suffix

    def template_args(self, node):
        out = []
        for c in node.get('inner', []) or []:
            if c.get('kind') == 'TemplateArgument' and 'type' in c:
                out.append(c['type'].get('desugaredQualType') or c['type']['qualType'])
        if not out and node.get('mangledName') and node.get('name') and 'I' in node['mangledName']:
            # explicit specialisations carry no TemplateArgument children: take them from the demangled name
            try:
                dm = subprocess.run(['c++filt', node['mangledName']], capture_output=True, text=True).stdout.strip()
                m = re.search(r'::' + re.escape(node['name']) + r'<', dm)
                if m:
                    depth = 0
                    i = m.end() - 1
                    for j in range(i, len(dm)):
                        if dm[j] == '<':
                            depth += 1
                        elif dm[j] == '>':
                            depth -= 1
                            if depth == 0:
                                out = split_targs(dm[i + 1:j])
                                break
            except Exception:
                pass
        return out

    def requalify(self, qt, node):
        """clang prints types of template instantiations with unqualified names (unique_ptr<Interface>): put back the
        qualified template arguments of the instantiation"""
        for targ in self.template_args(node):
            if '<' in targ or '(' in targ:
                continue          # only plain qualified class names are put back
            short = targ.split('::')[-1]
            if '::' in targ and re.search(r'(?<![:\w])' + re.escape(short) + r'(?![\w])', qt) and targ not in qt:
                qt = re.sub(r'(?<![:\w])' + re.escape(short) + r'(?![\w])', targ, qt)
        return qt

    def _overloaded(self, tu, node, qual):
        par = tu.semantic_parent(node)
        if par is None:
            return False
        cnt = 0
        name = node.get('name')

        def walk(n):
            nonlocal cnt
            for c in n.get('inner', []) or []:
                k = c.get('kind')
                if k in FUNC_KINDS and c.get('name') == name and not c.get('isImplicit'):
                    if not c.get('previousDecl'):
                        cnt += 1
                elif k == 'FunctionTemplateDecl' and c.get('name') == name:
                    cnt += 1
        walk(par)
        if par.get('kind') == 'NamespaceDecl':
            # namespaces are reopened: count over all reopenings in this TU
            cnt = 0
            q = qual
            for f in tu.by_id.values():
                if f.get('kind') in FUNC_KINDS and f.get('name') == name and not f.get('previousDecl'):
                    try:
                        if tu.qual(f) == q:
                            cnt += 1
                    except Exception:
                        pass
        return cnt > 1

    # ------------------------------------------------------------------ function translation
    def request(self, tu, node, cname=None):
        """Ask for the translation of a function (by declaration or definition node). Returns its C name."""
        d = tu.defs.get(node['id'], node if any(c.get('kind') == 'CompoundStmt' for c in node.get('inner', [])) else None)
        ref = d or node
        cn = cname or self.cname_for(tu, ref)
        if cn in self.funcs:
            if sig_key(self.funcs[cn]['sig']) != sig_key(ref['type']['qualType']):
                raise ExtractionBreak('C name collision for %s: %s vs %s' % (cn, self.funcs[cn]['sig'], ref['type']['qualType']))
            return cn
        info = dict(cname=cn, node=ref, tu=tu, body=None, throws=None, qual=tu.qual(ref), loops=0,
                    sig=ref['type']['qualType'])
        self.funcs[cn] = info
        self.order.append(cn)
        self._proto(info)
        if cn in self.stub or ref.get('pure') or any(cn.startswith(px) for px in self.cfg.get('stub_prefixes', [])):
            info['stub'] = True
            info['throws'] = cn not in self.nothrow_stubs
            return cn
        if d is None:
            # defined in another TU?
            home = home_tu(info['qual'])
            if home and os.path.abspath(home) != os.path.abspath(tu.path):
                tu2 = get_tu(home)
                cands = [f for f in tu2.funcs if tu2.qual(f) == info['qual'] and sig_key(f['type']['qualType']) == sig_key(info['sig'])]
                if cands:
                    info['node'] = cands[0]
                    info['tu'] = tu2
                    d = cands[0]
                    self._proto(info)
            if d is None:
                info['stub'] = True
                info['throws'] = cn not in self.nothrow_stubs
                self.dropped.append('no body available for %s (%s): contract stub required' % (cn, info['qual']))
                return cn
        info['stub'] = False
        self.pending.append(cn)
        return cn

    def _proto(self, info):
        node, tu = info['node'], info['tu']
        params = [c for c in node.get('inner', []) if c.get('kind') == 'ParmVarDecl']
        sig = node['type'].get('desugaredQualType') or node['type']['qualType']
        ret_q = self._ret_type(node)
        static_ = node.get('storageClass') == 'static'
        d_ = node
        while not static_ and d_ is not None and d_.get('previousDecl'):
            d_ = tu.by_id.get(d_['previousDecl'])       # 'static' is only written on the in-class declaration
            static_ = d_ is not None and d_.get('storageClass') == 'static'
        is_method = node.get('kind') in ('CXXMethodDecl', 'CXXConstructorDecl', 'CXXConversionDecl') and not static_
        cparams = []
        info['params'] = []
        if node.get('kind') == 'CXXConstructorDecl':
            par = tu.semantic_parent(node)
            rq = tu.qual(par) if par.get('kind') != 'ClassTemplateSpecializationDecl' else tu._qual_of(par, tu.parent.get(par['id']))
            rt = self._ctype_noref(rq, tu, node)
            info['ret'] = rt
            info['ret_ref'] = False
            info['this'] = rt
            info['ctor'] = True
        else:
            rt = self.ctype(self.requalify(ret_q, node), tu, node)
            info['ret'] = rt
            info['ret_ref'] = rt.ref
            if is_method:
                par = tu.semantic_parent(node)
                rq = tu.qual(par) if par.get('kind') != 'ClassTemplateSpecializationDecl' else tu._qual_of(par, tu.parent.get(par['id']))
                tt = self._ctype_noref(rq, tu, node)
                info['this'] = tt
                cparams.append('%s *this_' % tt.c)
        for i, p in enumerate(params):
            qt = p['type'].get('desugaredQualType') or p['type']['qualType']
            pt = self.ctype(self.requalify(qt, node), tu, p)
            pname = p.get('name') or 'unnamed_%d' % i
            info['params'].append((pname, pt, p))
            if pt.ref:
                cparams.append('%s *%s' % (pt.c, pname))
            else:
                cparams.append('%s %s' % (pt.c, pname))
        rc = info['ret'].c + (' *' if info.get('ret_ref') else '')
        info['proto'] = '%s %s(%s)' % (rc, info['cname'], ', '.join(cparams) if cparams else 'void')

    def _ret_type(self, node):
        qt = node['type'].get('desugaredQualType') or node['type']['qualType']
        # return type = text before the top-level '(' of the parameter list
        depth = 0
        for i, ch in enumerate(qt):
            if ch == '<':
                depth += 1
            elif ch == '>':
                depth -= 1
            elif ch == '(' and depth == 0:
                return qt[:i].strip()
        return qt

    def run(self):
        while self.pending:
            cn = self.pending.pop(0)
            info = self.funcs[cn]
            try:
                FunctionBody(self, info).translate()
            except ExtractionBreak as e:
                if os.environ.get('CXX2C_DEBUG'):
                    import traceback
                    traceback.print_exc()
                raise ExtractionBreak('%s (while translating %s)' % (e, cn))
        # fixed point for "throws"
        changed = True
        while changed:
            changed = False
            for info in self.funcs.values():
                if info.get('stub'):
                    continue
                if not info.get('throws') and any(self.funcs[c].get('throws') for c in info.get('calls', [])):
                    info['throws'] = True
                    changed = True

    # ------------------------------------------------------------------ output
    def emit(self):
        out = ['/* generated by cxx2c from %s -- do not edit */' % REPO, '#include "wbshim.h"']
        for name, text in self.type_defs:
            if name in self.vec_types:
                out.append('#ifndef WB_CAP_%s\n#define WB_CAP_%s WB_VEC_CAP\n#endif' % (name, name))
            out.append(text)
        for name, el in self.vec_types.items():
            out.append('WB_VEC_SHIMS(%s, %s)' % (name, el.c))
            if el.kind == 'scalar':
                out.append('WB_VEC_SHIMS_SCALAR(%s, %s)' % (name, el.c))
        for name, text in self.global_consts.items():
            out.append(text)
        for name, text in self.fp_decls.items():
            out.append(text)
        for cn in self.order:
            out.append(self.funcs[cn]['proto'] + ';')
        for cn in self.order:
            info = self.funcs[cn]
            if info.get('body'):
                out.append('/* %s  [%s]  %s:%s */' % (info['qual'], info['sig'], os.path.relpath(info['tu'].path, REPO),
                                                     (info['node'].get('loc') or {}).get('line', '?')))
                out.append(info['proto'] + '\n' + info['body'])
        return '\n'.join(out) + '\n'


# ----------------------------------------------------------------------------- function bodies

LIBM1 = {'sqrt', 'exp', 'sin', 'cos', 'tan', 'asin', 'acos', 'atan', 'erfc', 'erf', 'log', 'log10', 'sinh', 'cosh',
         'tanh', 'cbrt'}
LIBM2 = {'atan2', 'pow', 'fmod', 'hypot'}
EXACT1 = {'fabs': 'fabs', 'abs': None, 'floor': 'floor', 'ceil': 'ceil', 'round': 'round', 'trunc': 'trunc',
          'isnan': 'isnan', 'isinf': 'isinf', 'isfinite': 'isfinite', 'signbit': 'signbit'}


class FunctionBody:
    def __init__(self, tr, info):
        self.tr = tr
        self.info = info
        self.tu = info['tu']
        self.node = info['node']
        self.pre = None          # list for hoisted statements of the current statement
        self.loop_no = 0
        self.calls = set()
        self.throws = False
        self.refvars = set()     # names of variables/params that are pointers standing for references
        self.local_types = {}
        self.ind = 1
        self.no_hoist = 0
        self.subst = {}          # inlining of trivial accessors: ParmVarDecl id -> C text of the actual argument
        self.this_text = 'this_'

    # -- helpers
    def qt(self, n):
        t = n.get('type') or {}
        return t.get('desugaredQualType') or t.get('qualType') or ''

    def ct(self, n):
        return self.tr.ctype(self.qt(n), self.tu, n)

    def tmp(self, ctype_c, expr):
        if self.pre is None or self.no_hoist:
            raise ExtractionBreak('temporary needed in a context where hoisting is not modelled (%s)' % expr[:80])
        self.tr.tmp_counter += 1
        name = 'wb_t%d' % self.tr.tmp_counter
        self.pre.append('%s %s = %s;' % (ctype_c, name, expr))
        return name

    def translate(self):
        info = self.info
        self.param_names = {}
        for pname, pt, p in info['params']:
            self.param_names[p['id']] = pname
            if pt.ref:
                self.refvars.add(p['id'])
        body = [c for c in self.node.get('inner', []) if c.get('kind') == 'CompoundStmt']
        lines = []
        if info.get('ctor'):
            lines.append('  %s self_ = {0};' % info['this'].c)
            lines.append('  %s *this_ = &self_;' % info['this'].c)
            for c in self.node.get('inner', []):
                if c.get('kind') == 'CXXCtorInitializer':
                    lines += self.ctor_init(c)
        lines += self.stmt_list(body[0].get('inner', []) or [], 1)
        if info.get('ctor'):
            lines.append('  return self_;')
        info['body'] = '{\n' + '\n'.join(lines) + '\n}'
        info['calls'] = self.calls
        info['throws'] = self.throws
        info['loops'] = self.loop_no

    def ctor_init(self, c):
        out = []
        self.pre = []
        inner = c.get('inner', [])
        if 'anyInit' in c:
            fname = c['anyInit']['name']
            ftype = self.tr.ctype(c['anyInit']['type'].get('desugaredQualType') or c['anyInit']['type']['qualType'], self.tu)
            val = self.expr(inner[0]) if inner else self.tr.zero(ftype)
            out += ['  ' + s for s in self.pre]
            out.append('  this_->%s = %s;' % (fname, val))
        elif 'baseInit' in c:
            val = self.expr(inner[0])
            out += ['  ' + s for s in self.pre]
            out.append('  this_->base_ = %s;' % val)
        else:
            brk('unsupported ctor initializer', c)
        self.pre = None
        return out

    # -- statements
    def stmt_list(self, nodes, ind):
        out = []
        for n in nodes:
            out += self.stmt(n, ind)
        return out

    def is_stream_type(self, t):
        return ('basic_ostream' in t or 'basic_stringstream' in t or 'basic_ostringstream' in t or 'basic_istream' in t)

    def with_pre(self, fn):
        """Run fn() (which returns list of lines) collecting hoisted statements before them."""
        saved = self.pre
        self.pre = []
        lines = fn()
        pre = self.pre
        self.pre = saved
        return pre, lines

    def stmt(self, n, ind):
        I = '  ' * ind
        k = n.get('kind')
        if k == 'CompoundStmt':
            return [I + '{'] + self.stmt_list(n.get('inner', []) or [], ind + 1) + [I + '}']
        if k == 'NullStmt':
            return [I + ';']
        if k == 'DeclStmt':
            out = []
            for d in n.get('inner', []):
                out += self.vardecl(d, ind)
            return out
        if k == 'ReturnStmt':
            inner = n.get('inner', [])
            if not inner:
                return [I + 'return;']
            pre, val = self.with_pre(lambda: [self.ret_expr(inner[0])])
            return self.block(pre, [I + 'return %s;' % val[0]], ind)
        if k == 'IfStmt':
            inner = n['inner']
            if n.get('hasInit') or n.get('hasVar'):
                brk('if with init/var', n)
            cv = self.const_bool(inner[0])
            if cv is True:
                return self.as_block(inner[1], ind)
            if cv is False:
                return self.as_block(inner[2], ind) if len(inner) > 2 else []
            pre, c = self.with_pre(lambda: [self.expr(inner[0])])
            out = [I + 'if (%s)' % c[0]] + self.as_block(inner[1], ind)
            if n.get('hasElse') or len(inner) > 2:
                out += [I + 'else'] + self.as_block(inner[2], ind)
            return self.block(pre, out, ind)
        if k == 'ForStmt':
            init, condvar, cond, inc, body = n['inner']
            out = [I + '{']
            if init and init.get('kind'):
                out += self.stmt(init, ind + 1)
            self.no_hoist += 1
            c = self.expr(cond) if cond and cond.get('kind') else '1'
            i = self.expr(inc) if inc and inc.get('kind') else ''
            self.no_hoist -= 1
            self.loop_no += 1
            out.append(I + '  /*@PRELOOP %s %d@*/' % (self.info['cname'], self.loop_no))
            out.append(I + '  for (; %s; %s)' % (c, i))
            ln = self.loop_no
            out.append(I + '  /*@LOOP %s %d@*/' % (self.info['cname'], ln))
            out += self.loop_body(body, ind + 1, ln)
            out.append(I + '}')
            return out
        if k == 'WhileStmt':
            inner = [c for c in n['inner'] if c.get('kind')]
            cond, body = inner[-2], inner[-1]
            self.no_hoist += 1
            c = self.expr(cond)
            self.no_hoist -= 1
            self.loop_no += 1
            ln = self.loop_no
            return [I + '/*@PRELOOP %s %d@*/' % (self.info['cname'], ln), I + 'while (%s)' % c, I + '/*@LOOP %s %d@*/' % (self.info['cname'], ln)] + self.loop_body(body, ind, ln)
        if k == 'DoStmt':
            body, cond = n['inner']
            if cond.get('kind') == 'CXXBoolLiteralExpr' and not cond.get('value'):
                if self.contains_kind(body, ('BreakStmt', 'ContinueStmt')):
                    brk('do{}while(false) with break/continue', n)
                return self.as_block(body, ind)
            self.no_hoist += 1
            c = self.expr(cond)
            self.no_hoist -= 1
            self.loop_no += 1
            ln = self.loop_no
            return [I + '/*@PRELOOP %s %d@*/' % (self.info['cname'], ln), I + 'do', I + '/*@LOOP %s %d@*/' % (self.info['cname'], ln)] + self.loop_body(body, ind, ln) + [I + 'while (%s);' % c]
        if k == 'SwitchStmt':
            inner = [c for c in n['inner'] if c.get('kind')]
            pre, c = self.with_pre(lambda: [self.expr(inner[0])])
            out = [I + 'switch (%s)' % c[0]] + self.as_block(inner[1], ind)
            return self.block(pre, out, ind)
        if k == 'CaseStmt':
            inner = n['inner']
            v = self.tr._const_int(inner[0])
            if v is None:
                brk('non-constant case label', n)
            return [I + 'case %d:' % v] + self.stmt(inner[1], ind + 1)
        if k == 'DefaultStmt':
            return [I + 'default:'] + self.stmt(n['inner'][0], ind + 1)
        if k == 'BreakStmt':
            return [I + 'break;']
        if k == 'ContinueStmt':
            return [I + 'continue;']
        if k == 'CXXForRangeStmt':
            return self.range_for(n, ind)
        if k == 'CXXTryStmt':
            brk('try/catch is not modelled', n)
        # expression statement
        t = self.qt(n)
        if self.is_stream_type(t):
            self.tr.dropped.append('stream output statement dropped in %s' % self.info['cname'])
            return []
        pre, e = self.with_pre(lambda: [self.expr(n, stmt=True)])
        if e[0] is None or e[0] == '':
            return self.block(pre, [], ind)
        return self.block(pre, [I + e[0] + ';'], ind)

    def loop_body(self, body, ind, ln, first=()):
        I = '  ' * ind
        cn = self.info['cname']
        return [I + '{'] + list(first) + [I + '  /*@BODY %s %d@*/' % (cn, ln)] + self.stmt(body, ind + 1) + \
               [I + '  /*@BODYEND %s %d@*/' % (cn, ln), I + '}']

    def const_bool(self, n):
        n = self.strip(n)
        if n.get('kind') == 'CXXBoolLiteralExpr':
            return bool(n.get('value'))
        if n.get('kind') == 'UnaryOperator' and n.get('opcode') == '!':
            v = self.const_bool(n['inner'][0])
            return None if v is None else (not v)
        return None

    def block(self, pre, lines, ind):
        if not pre:
            return lines
        I = '  ' * ind
        # hoisted temporaries live in the enclosing scope of the statement (names are unique)
        return [I + p for p in pre] + lines

    def as_block(self, n, ind):
        if n.get('kind') == 'CompoundStmt':
            return self.stmt(n, ind)
        s = self.stmt(n, ind + 1)
        I = '  ' * ind
        return [I + '{'] + s + [I + '}']

    def contains_kind(self, n, kinds):
        if not isinstance(n, dict):
            return False
        if n.get('kind') in kinds:
            return True
        if n.get('kind') in ('ForStmt', 'WhileStmt', 'DoStmt', 'SwitchStmt', 'CXXForRangeStmt'):
            return False
        return any(self.contains_kind(c, kinds) for c in n.get('inner', []) or [])

    def throw_stmt(self):
        self.throws = True
        z = self.zero_ret()
        return 'wb_thrown = 1; return%s' % ((' ' + z) if z else '')

    def zero_ret(self):
        info = self.info
        if info.get('ctor'):
            return 'self_'
        if info.get('ret_ref'):
            return '(%s *)0' % info['ret'].c
        return self.tr.zero(info['ret'])

    def vardecl(self, d, ind):
        I = '  ' * ind
        if d.get('kind') != 'VarDecl':
            if d.get('kind') in ('TypedefDecl', 'TypeAliasDecl', 'UsingDirectiveDecl', 'UsingDecl', 'StaticAssertDecl'):
                return []
            brk('unsupported declaration', d)
        t = self.qt(d)
        if self.is_stream_type(t):
            return []
        init0 = [c for c in d.get('inner', []) if c.get('kind') and not c['kind'].endswith('Comment')]
        if self.qt(d).startswith('(lambda at '):
            self.lambdas = getattr(self, 'lambdas', {})
            self.lambdas[d['id']] = d['name']
            self.tr.dropped.append('lambda %s in %s is not translated: launching it is modelled by the ghost event WB_LAUNCH(first, last)' % (d['name'], self.info['cname']))
            return []
        ct = self.tr.ctype(t, self.tu, d)
        name = d['name']
        inner = [c for c in d.get('inner', []) if c.get('kind') and not c['kind'].endswith('Comment')]
        if (d.get('storageClass') == 'static' or d.get('tls')) and not (ct.const or d.get('constexpr')):
            # function-local static / thread_local state: becomes a C global of the translation (writing it is then a
            # violation of the function's frame condition, which is what it is for a query function)
            gname = '%s__static_%s' % (self.info['cname'], name)
            if gname not in self.tr.global_consts:
                saved, self.pre = self.pre, None
                try:
                    iv = self.expr(inner[0]) if inner else self.tr.zero(ct)
                except ExtractionBreak:
                    iv = None
                self.pre = saved
                if iv is None or not re.match(r'^[-+0-9a-fA-FxXpP.() /*A-Z_]*$', iv):
                    self.tr.global_consts[gname] = '%s %s; /* function-local static of %s (dynamic initialiser not modelled) */' % (ct.c, gname, self.info['cname'])
                else:
                    self.tr.global_consts[gname] = '%s %s = %s; /* function-local static of %s */' % (ct.c, gname, iv, self.info['cname'])
                self.tr.dropped.append('function-local static %s of %s becomes the C global %s' % (name, self.info['cname'], gname))
            self.subst[d['id']] = gname
            return []
        if ct.ref:
            self.refvars.add(d['id'])
            pre, v = self.with_pre(lambda: [self.addr_of(inner[0])])
            return self.block(pre, [I + '%s *%s = %s;' % (ct.c, name, v[0])], ind)
        if not inner:
            if ct.kind == 'vector':
                return [I + '%s %s; %s.n = 0;' % (ct.c, name, name)]
            if ct.kind in ('record',):
                # default construction of a user record: needs its default ctor
                return [I + '%s %s = {0};' % (ct.c, name)] if self.trivial_default(ct) else brk('default ctor of %s' % ct.c, d)
            return [I + '%s %s;' % (ct.c, name)]
        pre, v = self.with_pre(lambda: [self.init_expr(inner[0], ct)])
        return self.block(pre, [I + '%s %s = %s;' % (ct.c, name, v[0])], ind)

    def trivial_default(self, ct):
        return ct.kind in ('array',) or ct.kind == 'string'

    def init_expr(self, n, ct):
        return self.expr(n)

    def ret_expr(self, n):
        if self.info.get('ret_ref'):
            return self.addr_of(n)
        return self.expr(n)

    def range_for(self, n, ind):
        I = '  ' * ind
        inner = n['inner']
        rangedecl = inner[1]['inner'][0]
        loopvar = inner[6]['inner'][0]
        body = inner[7]
        rexpr = rangedecl['inner'][0]
        rt = self.ct(rexpr)
        pre, r = self.with_pre(lambda: [self.addr_of(rexpr)])
        self.loop_no += 1
        ln = self.loop_no
        idx = 'wb_i%d' % ln
        rp = 'wb_r%d' % ln
        vt = self.tr.ctype(self.qt(loopvar), self.tu, loopvar)
        out = [I + '{'] + ['  ' + I + p for p in pre]
        out.append(I + '  %s *%s = %s;' % (rt.c, rp, r[0]))
        if rt.kind == 'vector':
            bound = '%s->n' % rp
            elem = '%s->data[%s]' % (rp, idx)
        elif rt.kind == 'array':
            bound = '%dul' % rt.n
            elem = '%s->e[%s]' % (rp, idx)
        else:
            brk('range-for over %s' % rt.c, n)
        out.append(I + '  /*@PRELOOP %s %d@*/' % (self.info['cname'], ln))
        out.append(I + '  for (size_t %s = 0; %s < %s; ++%s)' % (idx, idx, bound, idx))
        out.append(I + '  /*@LOOP %s %d@*/' % (self.info['cname'], ln))
        if vt.ref:
            self.refvars.add(loopvar['id'])
            first = I + '    %s *%s = &%s;' % (vt.c, loopvar['name'], elem)
        else:
            first = I + '    %s %s = %s;' % (vt.c, loopvar['name'], elem)
        out += self.loop_body(body, ind + 1, ln, [first])
        out.append(I + '}')
        return out

    # -- expressions
    def addr_of(self, n):
        """C expression for the address of the object denoted by n (materialising prvalues)."""
        n = self.strip(n)
        if n.get('valueCategory') in ('lvalue', 'xvalue') and n.get('kind') not in ('MaterializeTemporaryExpr',):
            e = self.expr(n)
            if e.startswith('(*') and e.endswith(')') and self._balanced(e[2:-1]):
                return e[2:-1]
            return '&' + e
        if n.get('kind') == 'MaterializeTemporaryExpr':
            return self.addr_of(n['inner'][0])
        # prvalue: materialise
        ct = self.ct(n)
        e = self.expr(n)
        t = self.tmp(ct.c, e)
        return '&' + t

    def _balanced(self, s):
        d = 0
        for ch in s:
            if ch == '(':
                d += 1
            elif ch == ')':
                d -= 1
                if d < 0:
                    return False
        return d == 0

    def strip(self, n):
        while n.get('kind') in ('ExprWithCleanups', 'CXXBindTemporaryExpr', 'ParenExpr', 'ConstantExpr',
                                'SubstNonTypeTemplateParmExpr') or \
                (n.get('kind') == 'ImplicitCastExpr' and n.get('castKind') in ('NoOp', 'FunctionToPointerDecay', 'BuiltinFnToFnPtr')):
            if n.get('kind') == 'ConstantExpr' and not n.get('inner'):
                break
            n = n['inner'][-1] if n.get('kind') == 'SubstNonTypeTemplateParmExpr' else n['inner'][0]
        return n

    def lit_int(self, n):
        v = str(n['value'])
        t = self.qt(n)
        suf = {'unsigned int': 'u', 'unsigned long': 'ul', 'long': 'l', 'unsigned long long': 'ull', 'long long': 'll'}.get(strip_cv(t), '')
        return v + suf

    # -- floating-point outlining (see fpx.py): maximal + - * / neg libm trees become named symbols
    def is_double(self, n):
        return strip_cv(self.qt(n)) == 'double'

    def fp_strip(self, n):
        while True:
            k = n.get('kind')
            if k in ('ParenExpr', 'ExprWithCleanups', 'MaterializeTemporaryExpr', 'CXXBindTemporaryExpr'):
                n = n['inner'][0]
            elif k == 'ImplicitCastExpr' and n.get('castKind') == 'NoOp':
                n = n['inner'][0]
            else:
                return n

    def libm_call(self, n):
        if n.get('kind') != 'CallExpr':
            return None
        c = self.strip(n['inner'][0])
        if c.get('kind') != 'DeclRefExpr':
            return None
        rd = c['referencedDecl']
        if rd['id'] in self.tu.by_id:
            return None
        args = [a for a in n['inner'][1:] if a.get('kind') != 'CXXDefaultArgExpr']
        if (rd['name'] in LIBM1 and len(args) == 1) or (rd['name'] in LIBM2 and len(args) == 2):
            if all(self.is_double(a) for a in args):
                return rd['name'], args
        return None

    def fp_struct(self, n, atoms):
        m = self.fp_strip(n)
        k = m.get('kind')
        if k == 'BinaryOperator' and m.get('opcode') in ('+', '-', '*', '/') and self.is_double(m):
            l = self.fp_struct(m['inner'][0], atoms)
            r = self.fp_struct(m['inner'][1], atoms)
            return (fpx.OPN[m['opcode']], l, r)
        if k == 'UnaryOperator' and m.get('opcode') == '-' and self.is_double(m):
            x = self.fp_struct(m['inner'][0], atoms)
            if x[0] == 'k':
                return ('k', -float(x[1]))
            return ('neg', x)
        if k == 'FloatingLiteral':
            return ('k', float(m['value']))
        if k in ('ImplicitCastExpr', 'CStyleCastExpr', 'CXXStaticCastExpr', 'CXXFunctionalCastExpr') and \
                m.get('castKind') == 'IntegralToFloating' and self.is_double(m):
            i = self.strip(m['inner'][0])
            while i.get('kind') in ('ImplicitCastExpr',) and i.get('castKind') in ('IntegralCast',):
                i = self.strip(i['inner'][0])
            if i.get('kind') == 'IntegerLiteral':
                return ('k', float(int(i['value'])))
        lc = self.libm_call(m)
        if lc:
            self.tr.shim_used.add('libm:' + lc[0])
            return ('fn', lc[0]) + tuple(self.fp_struct(a, atoms) for a in lc[1])
        atoms.append(m)
        return ('a',)

    def fp_root(self, n):
        m = self.fp_strip(n)
        k = m.get('kind')
        if k == 'BinaryOperator' and m.get('opcode') in ('+', '-', '*', '/') and self.is_double(m):
            return True
        if k == 'UnaryOperator' and m.get('opcode') == '-' and self.is_double(m):
            return True
        return self.libm_call(m) is not None

    def fp_emit(self, s, atom_texts):
        name = fpx.symbol(s)
        self.tr.fp_decls[name] = fpx.declaration(name, s)
        return '%s(%s)' % (name, ', '.join(atom_texts))

    def try_outline(self, n):
        if not self.tr.outline or not self.fp_root(n):
            return None
        atoms = []
        s = self.fp_struct(n, atoms)
        if fpx.weight(s, self.tr.outline_all) == 0:
            return None
        texts = [self.expr(a) for a in atoms]
        if all(re.match(r'^\(*(DBL_EPSILON|DBL_MAX|DBL_MIN|G_\w+|-?0x[0-9a-f.]+p[-+]?\d+|-?\d[\d.]*(e[-+]?\d+)?)\)*$', t) for t in texts):
            return None          # constant expression: stays concrete (the compiler folds it too)
        return self.fp_emit(s, texts)

    def expr(self, n, stmt=False):
        k = n.get('kind')
        if self.tr.outline and k in ('BinaryOperator', 'UnaryOperator', 'CallExpr', 'ParenExpr'):
            o = self.try_outline(n)
            if o is not None:
                return o
        m = getattr(self, 'e_' + k, None)
        if m is None:
            brk('expression kind outside the translated subset', n)
        return m(n) if k not in ('CallExpr', 'CXXMemberCallExpr', 'CXXOperatorCallExpr', 'BinaryOperator',
                                 'CompoundAssignOperator', 'UnaryOperator', 'ExprWithCleanups', 'CXXThrowExpr',
                                 'CStyleCastExpr') else m(n, stmt)

    def e_IntegerLiteral(self, n):
        return self.lit_int(n)

    def e_FloatingLiteral(self, n):
        v = float(n['value'])
        if v != v or v in (float('inf'), float('-inf')):
            brk('non-finite literal', n)
        return float(v).hex() if v != 0 else '0.0'

    def e_CXXBoolLiteralExpr(self, n):
        return '1' if n.get('value') else '0'

    def e_CharacterLiteral(self, n):
        return "((char)%d)" % n['value']

    def e_StringLiteral(self, n):
        return n['value']

    def e_CXXNullPtrLiteralExpr(self, n):
        return '0'

    def e_GNUNullExpr(self, n):
        return '0'

    def e_ParenExpr(self, n):
        return '(' + self.expr(n['inner'][0]) + ')'

    def e_ConstantExpr(self, n):
        if n.get('inner'):
            return self.expr(n['inner'][0])
        return str(n['value'])

    def e_SubstNonTypeTemplateParmExpr(self, n):
        return self.expr(n['inner'][-1])

    def e_ExprWithCleanups(self, n, stmt=False):
        return self.expr(n['inner'][0], stmt)

    def e_CXXBindTemporaryExpr(self, n):
        return self.expr(n['inner'][0])

    def e_MaterializeTemporaryExpr(self, n):
        return self.expr(n['inner'][0])

    def e_CXXThisExpr(self, n):
        return self.this_text

    def e_CXXDefaultArgExpr(self, n):
        brk('default argument without callee context', n)

    def e_ImplicitValueInitExpr(self, n):
        return self.tr.zero(self.ct(n))

    def e_CXXScalarValueInitExpr(self, n):
        return self.tr.zero(self.ct(n))

    def e_DeclRefExpr(self, n):
        rd = n['referencedDecl']
        k = rd['kind']
        if k in ('ParmVarDecl', 'VarDecl', 'BindingDecl'):
            if rd['id'] in self.subst:
                return self.subst[rd['id']]
            nm = rd.get('name') or getattr(self, 'param_names', {}).get(rd['id'], '')
            if rd['id'] in self.refvars:
                return '(*%s)' % nm
            decl = self.tu.by_id.get(rd['id'])
            if decl is not None and k == 'VarDecl' and self.is_global(decl):
                return self.global_const(decl)
            return nm
        if k == 'EnumConstantDecl':
            et = self.ct(n)
            if et.kind != 'enum':
                decl = self.tu.by_id.get(rd['id'])
                par = self.tu.parent.get(rd['id'])
                eq = self.tu._qual_of(par, self.tu.parent.get(par['id']))
                et = self.tr._enum(eq, self.tu)
            return self.tr._enumconst(et.qual, rd['name'])
        if k in FUNC_KINDS:
            decl = self.tu.by_id.get(rd['id'])
            if decl is None:
                return rd['name']
            cn = self.tr.request(self.tu, decl)
            self.calls.add(cn)
            return cn
        brk('reference to %s' % k, n)

    def is_global(self, decl):
        p = self.tu.parent.get(decl['id'])
        return p is not None and p.get('kind') in ('NamespaceDecl', 'TranslationUnitDecl', 'CXXRecordDecl',
                                                   'ClassTemplateSpecializationDecl')

    def global_const(self, decl):
        q = self.tu.qual(decl)
        name = 'G_' + self.tr._cident(q)
        if name not in self.tr.global_consts:
            t = self.qt(decl)
            ct = self.tr.ctype(t, self.tu, decl)
            if not (ct.const or decl.get('constexpr')):
                brk('mutable global %s' % q, decl)
            inner = [c for c in decl.get('inner', []) if c.get('kind') and not c['kind'].endswith('Comment')]
            if not inner:
                brk('global %s without visible initialiser' % q, decl)
            self.tr.global_consts[name] = None
            saved, self.pre = self.pre, None
            v = self.expr(inner[0])
            self.pre = saved
            if ct.kind == 'scalar':
                self.tr.global_consts[name] = '#define %s ((%s)(%s))' % (name, ct.c, v)
            elif ct.c == 'struct wb_string':
                # a function call is no constant initialiser in C
                self.tr.global_consts[name] = '#define %s (%s)' % (name, v)
            else:
                self.tr.global_consts[name] = 'static const %s %s = %s;' % (ct.c, name, v)
        return name

    def e_MemberExpr(self, n):
        base = n['inner'][0]
        name = n['name']
        b = self.expr(base)
        if n.get('isArrow'):
            if b.startswith('&') and self._balanced(b[1:]) and re.match(r'^&[A-Za-z_][\w.\[\]>()*-]*$', b) and '->' not in b.split('.')[0][1:] and False:
                return '%s.%s' % (b[1:], name)
            if b.startswith('(&') and b.endswith(')') and self._balanced(b[2:-1]):
                return '%s.%s' % (b[2:-1], name)
            return '%s->%s' % (b, name)
        return '%s.%s' % (b, name)

    def note_field(self, base, name):
        pass

    def e_ArraySubscriptExpr(self, n):
        b = n['inner'][0]
        if b.get('kind') == 'ImplicitCastExpr' and b.get('castKind') == 'ArrayToPointerDecay':
            return '%s.e[%s]' % (self.expr(b['inner'][0]), self.expr(n['inner'][1]))
        return '%s[%s]' % (self.expr(b), self.expr(n['inner'][1]))

    def e_UnaryOperator(self, n, stmt=False):
        op = n['opcode']
        e = self.expr(n['inner'][0])
        if op in ('++', '--'):
            return '%s%s' % (e, op) if n.get('isPostfix') else '%s%s' % (op, e)
        if op == '&':
            return self.addr_of(n['inner'][0])
        if op == '*':
            return '(*%s)' % e
        return '(%s%s)' % (op, e)

    def e_BinaryOperator(self, n, stmt=False):
        op = n['opcode']
        l, r = n['inner']
        if op in ('&&', '||'):
            le = self.expr(l)
            self.no_hoist += 1
            try:
                re_ = self.expr(r)
                return '(%s %s %s)' % (le, op, re_)
            except ExtractionBreak as e:
                if 'hoisting is not modelled' not in str(e) or self.pre is None or self.no_hoist > 1:
                    raise
            finally:
                self.no_hoist -= 1
            # the right operand needs temporaries / may throw: lower the short circuit to an if statement
            self.tr.tmp_counter += 1
            name = 'wb_t%d' % self.tr.tmp_counter
            pr, rv = self.with_pre(lambda: [self.expr(r)])
            self.pre.append('_Bool %s = %s; if (%s%s) { %s %s = %s; }' % (name, le, '' if op == '&&' else '!', name, ' '.join(pr), name, rv[0]))
            return name
        if op == ',':
            brk('comma operator', n)
        le = self.expr(l)
        re_ = self.expr(r)
        if op == '=':
            return '%s = %s' % (le, re_) if stmt else '(%s = %s)' % (le, re_)
        return '(%s %s %s)' % (le, op, re_)

    def e_CompoundAssignOperator(self, n, stmt=False):
        l, r = n['inner']
        if self.tr.outline and self.is_double(l) and n['opcode'] in ('+=', '-=', '*=', '/=') and self.is_double(n):
            atoms = []
            rs = self.fp_struct(r, atoms)
            s_ = (fpx.OPN[n['opcode'][0]], ('a',), rs)
            if fpx.weight(s_, self.tr.outline_all) > 0:
                le = self.expr(l)
                call = self.fp_emit(s_, [le] + [self.expr(a) for a in atoms])
                txt = '%s = %s' % (le, call)
                return txt if stmt else '(' + txt + ')'
        s = '%s %s %s' % (self.expr(l), n['opcode'], self.expr(r))
        return s if stmt else '(' + s + ')'

    def e_ConditionalOperator(self, n):
        c, a, b = n['inner']
        ce = self.expr(c)
        self.no_hoist += 1
        try:
            ae = self.expr(a)
            be = self.expr(b)
            return '(%s ? %s : %s)' % (ce, ae, be)
        except ExtractionBreak as e:
            if 'hoisting is not modelled' not in str(e) or self.pre is None or self.no_hoist > 1:
                raise
        finally:
            self.no_hoist -= 1
        # a branch needs temporaries / may throw: lower  c ? a : b  to an if statement assigning a fresh local
        ct = self.ct(n)
        if ct.kind == 'void':
            brk('void conditional with side effects', n)
        self.tr.tmp_counter += 1
        name = 'wb_t%d' % self.tr.tmp_counter
        pa, ae = self.with_pre(lambda: [self.expr(a)])
        pb, be = self.with_pre(lambda: [self.expr(b)])
        self.pre.append('%s %s; if (%s) { %s %s = %s; } else { %s %s = %s; }' % (
            ct.c, name, ce, ' '.join(pa), name, ae[0], ' '.join(pb), name, be[0]))
        return name

    def cast(self, n, inner):
        ck = n.get('castKind')
        if ck == 'ArrayToPointerDecay' and self.strip(inner).get('kind') != 'StringLiteral':
            return '%s.e' % self.expr(inner)
        if ck in ('LValueToRValue', 'NoOp', 'FunctionToPointerDecay', 'ArrayToPointerDecay', 'ConstructorConversion',
                  'UserDefinedConversion', 'NullToPointer', 'BuiltinFnToFnPtr'):
            return self.expr(inner)
        if ck in ('IntegralCast', 'IntegralToFloating', 'FloatingToIntegral', 'FloatingCast'):
            ct = self.ct(n)
            if ct.kind == 'enum':
                return '((%s)%s)' % (ct.c, self.expr(inner))
            return '((%s)%s)' % (ct.c, self.expr(inner))
        if ck in ('IntegralToBoolean', 'FloatingToBoolean', 'PointerToBoolean'):
            return '((_Bool)(%s != 0))' % self.expr(inner)
        if ck in ('DerivedToBase', 'UncheckedDerivedToBase') and ('shared_ptr' in self.qt(n) or 'unique_ptr' in self.qt(n)):
            return self.expr(inner)          # smart pointer internals: the pointer itself
        if ck in ('DerivedToBase', 'UncheckedDerivedToBase'):
            path = n.get('path') or [None]
            e = self.expr(inner)
            it = self.ct(inner)
            steps = len(path)
            if it.kind == 'ptr' or e == 'this_':
                return '(&%s->%s)' % (e, '.'.join(['base_'] * steps))
            return '%s.%s' % (e, '.'.join(['base_'] * steps))
        if ck == 'ToVoid':
            return '(void)%s' % self.expr(inner)
        if ck == 'BitCast':
            return '((%s)%s)' % (self.ct(n).c, self.expr(inner))
        brk('cast kind %s' % ck, n)

    def e_ImplicitCastExpr(self, n):
        return self.cast(n, n['inner'][0])

    def e_CXXStaticCastExpr(self, n):
        return self.cast(n, n['inner'][0])

    def e_CStyleCastExpr(self, n, stmt=False):
        if n.get('castKind') == 'ToVoid':
            return '' if stmt else brk('void cast in expression', n)
        return self.cast(n, n['inner'][0])

    def e_CXXFunctionalCastExpr(self, n):
        return self.cast(n, n['inner'][0])

    def e_CXXReinterpretCastExpr(self, n):
        return '((%s)%s)' % (self.ct(n).c, self.expr(n['inner'][0]))

    def e_CXXConstCastExpr(self, n):
        brk('const_cast', n)

    def e_InitListExpr(self, n):
        ct = self.ct(n)
        items = n.get('inner', []) or []
        if ct.kind == 'array':
            # std::array<T,N>{{...}} : one nested InitListExpr for the raw array
            if len(items) == 1 and items[0].get('kind') == 'InitListExpr':
                items = items[0].get('inner', []) or []
            vals = [self.expr(i) for i in items if i.get('kind') != 'ImplicitValueInitExpr']
            return '(%s){{%s}}' % (ct.c, ', '.join(vals) if vals else '0')
        if ct.kind == 'record':
            return '(%s){%s}' % (ct.c, ', '.join(self.expr(i) for i in items) or '0')
        if ct.kind == 'scalar' and len(items) == 1:
            return self.expr(items[0])
        if ct.c.endswith(']') or '[' in self.qt(n):
            return '{%s}' % ', '.join(self.expr(i) for i in items)
        brk('init list of %s' % ct.c, n)

    def e_CXXThrowExpr(self, n, stmt=False):
        if not stmt:
            brk('throw inside an expression', n)
        return self.throw_stmt()

    def e_CXXConstructExpr(self, n):
        ct = self.ct(n)
        args = [a for a in n.get('inner', []) or [] if a.get('kind')]
        ctor_t = (n.get('ctorType') or {}).get('qualType', '')
        # copy / move construction -> value copy
        if len(args) == 1 and self.is_copy_ctor(ctor_t, ct):
            return self.expr(args[0])
        if ct.kind == 'ptr' and len(args) == 1:
            return self.expr(args[0])        # iterator conversions: iterators are plain pointers
        if ct.c == 'struct wb_uniform_real':
            real = [a for a in args if a.get('kind') != 'CXXDefaultArgExpr']
            if len(real) == 2:
                return '(struct wb_uniform_real){%s, %s}' % (self.expr(real[0]), self.expr(real[1]))
            brk('uniform_real_distribution construction form', n)
        if ct.c == 'struct wb_normal_dist':
            real = [a for a in args if a.get('kind') != 'CXXDefaultArgExpr']
            if len(real) == 2:
                return '(struct wb_normal_dist){%s, %s}' % (self.expr(real[0]), self.expr(real[1]))
            brk('normal_distribution construction form', n)
        if ct.kind == 'thread':
            if not args:
                return 'wb_thread_none()'
            a0 = self.strip(args[0])
            while a0.get('kind') in ('ImplicitCastExpr', 'MaterializeTemporaryExpr', 'CXXConstructExpr') and a0.get('inner'):
                a0 = self.strip(a0['inner'][0])
            if len(args) == 1 and self.ct(args[0]).kind == 'thread':
                return self.expr(args[0])
            if len(args) == 3 and a0.get('kind') == 'DeclRefExpr' and a0['referencedDecl']['id'] in getattr(self, 'lambdas', {}):
                return 'wb_thread_launch(%s, %s)' % (self.expr(args[1]), self.expr(args[2]))
            brk('std::thread construction form', n)
        if ct.kind == 'vector':
            real = [a for a in args if a.get('kind') != 'CXXDefaultArgExpr']
            if len(real) == 0:
                return '%s_new_empty()' % ct.name
            il = real[0] if len(real) == 1 else None
            while il is not None and il.get('kind') in ('ImplicitCastExpr', 'MaterializeTemporaryExpr', 'CXXBindTemporaryExpr', 'ExprWithCleanups', 'CXXStdInitializerListExpr') and il.get('inner'):
                if il.get('kind') == 'CXXStdInitializerListExpr':
                    il = il['inner'][0]
                    while il.get('kind') in ('ImplicitCastExpr', 'MaterializeTemporaryExpr', 'CXXBindTemporaryExpr') and il.get('inner'):
                        il = il['inner'][0]
                    break
                il = il['inner'][0]
            if il is not None and il.get('kind') == 'InitListExpr' and 'initializer_list' in ctor_t:
                # std::vector<T>{a, b, ...}: an empty vector and one push_back per element, in order
                t = self.tmp(ct.c, '%s_new_empty()' % ct.name)
                for item in il.get('inner', []) or []:
                    self.pre.append('%s_push(&%s, %s);' % (ct.name, t, self.expr(item)))
                return t
            if len(real) == 2 and self.ct(real[0]).kind == 'scalar':
                return '%s_new_fill(%s, %s)' % (ct.name, self.expr(real[0]), self.expr(real[1]))
            if len(real) == 1 and self.ct(real[0]).kind == 'scalar':
                return '%s_new_fill(%s, %s)' % (ct.name, self.expr(real[0]), self.tr.zero(ct.elem))
            brk('vector constructor form %s' % ctor_t, n)
        if ct.kind == 'array':
            if not args:
                return '(%s){0}' % ct.c
            brk('array constructor', n)
        if ct.kind == 'string':
            if not args:
                return 'wb_string_empty()'
            real = [a for a in args if a.get('kind') != 'CXXDefaultArgExpr']
            if len(real) == 1:
                at = self.qt(real[0])
                if 'char' in at and ('*' in at or '[' in at):
                    lit = self.str_lit(real[0])
                    return lit if lit else 'wb_string_from_cstr(%s)' % self.expr(real[0])
            brk('string constructor form %s' % ctor_t, n)
        if ct.kind == 'record':
            if hasattr(ct, 'pair'):
                return '(%s){%s}' % (ct.c, ', '.join(self.expr(a) for a in args))
            rnode, rtu, rq = self.tr.record_nodes[ct.name]
            cands = [c for c in rnode.get('inner', []) if c.get('kind') == 'CXXConstructorDecl' and c['type']['qualType'] == ctor_t]
            if not cands:
                # templated constructors are nested in FunctionTemplateDecl
                for c in rnode.get('inner', []):
                    if c.get('kind') == 'FunctionTemplateDecl':
                        for cc in c.get('inner', []):
                            if cc.get('kind') == 'CXXConstructorDecl' and cc['type']['qualType'] == ctor_t:
                                cands.append(cc)
            if not cands:
                brk('constructor %s of %s not found' % (ctor_t, ct.c), n)
            decl = cands[0]
            if decl.get('isImplicit') or decl.get('explicitlyDefaulted'):
                if not args:
                    return '(%s){0}' % ct.c
                brk('implicit ctor with args', n)
            cn = self.tr.request(rtu, decl)
            self.calls.add(cn)
            return self.call_user(cn, None, args, decl, n)
        if ct.c == 'struct wb_mt19937':
            real = [a for a in args if a.get('kind') != 'CXXDefaultArgExpr']
            if len(real) == 1:
                # std::mt19937 engine(seed): the state is the function of the seed that seed() establishes as well
                return 'wb_mt19937_ctor(%s)' % self.expr(real[0])
        brk('construction of %s' % ct.c, n)

    def is_copy_ctor(self, ctor_t, ct):
        m = re.match(r'^void \((.*?)\)( noexcept(\(\w+\))?)?$', ctor_t)
        if not m:
            return False
        a = m.group(1).strip()
        if ',' in a and '<' not in a:
            return False
        if not (a.endswith('&') or a.endswith('&&')):
            return False
        try:
            at = self.tr.ctype(a, self.tu)
        except ExtractionBreak:
            return False
        return at.c == ct.c

    def e_CXXTemporaryObjectExpr(self, n):
        return self.e_CXXConstructExpr(n)

    # -- calls
    def callee_decl(self, n):
        c = self.strip(n['inner'][0])
        if c.get('kind') == 'DeclRefExpr':
            return c['referencedDecl'], None
        if c.get('kind') == 'MemberExpr':
            return {'id': c.get('referencedMemberDecl'), 'name': c.get('name'), 'kind': 'CXXMethodDecl'}, c
        brk('indirect call', n)

    def args_of(self, decl, args, callnode):
        """Translate call arguments against the callee's parameter list (references -> addresses)."""
        params = [c for c in decl.get('inner', []) if c.get('kind') == 'ParmVarDecl']
        out = []
        for i, a in enumerate(args):
            if i >= len(params):
                brk('variadic call', callnode)
            p = params[i]
            pt = self.tr.ctype(self.tr.requalify(p['type'].get('desugaredQualType') or p['type']['qualType'], decl), self.tu, p)
            if a.get('kind') == 'CXXDefaultArgExpr':
                init = [c for c in p.get('inner', []) if c.get('kind') and not c['kind'].endswith('Comment')]
                if not init:
                    d2 = self.tu.by_id.get(decl.get('previousDecl', ''), None)
                    while d2 is not None and not init:
                        p2 = [c for c in d2.get('inner', []) if c.get('kind') == 'ParmVarDecl'][i]
                        init = [c for c in p2.get('inner', []) if c.get('kind') and not c['kind'].endswith('Comment')]
                        d2 = self.tu.by_id.get(d2.get('previousDecl', ''), None)
                if not init:
                    brk('default argument value not found', callnode)
                a = init[0]
            if pt.ref:
                out.append(self.addr_of(a))
            else:
                out.append(self.expr(a))
        return out

    def trivial_accessor(self, info):
        """A function whose body is one return statement (plus empty debug-assert blocks) is inlined at the call."""
        if 'accessor' in info:
            return info['accessor']
        info['accessor'] = None
        if info.get('stub') or info.get('ctor') or info['cname'] in self.tr.cfg.get('no_inline', []) or \
                info['cname'] in self.tr.cfg.get('enforce_names', []):
            return None
        body = [c for c in info['node'].get('inner', []) if c.get('kind') == 'CompoundStmt']
        if not body:
            return None

        def empty(st):
            if st.get('kind') == 'NullStmt':
                return True
            if st.get('kind') == 'CompoundStmt':
                return all(empty(x) for x in st.get('inner', []) or [])
            if st.get('kind') == 'DoStmt':
                b_, c_ = st['inner']
                return c_.get('kind') == 'CXXBoolLiteralExpr' and not c_.get('value') and empty(b_)
            return False
        stmts = [st for st in body[0].get('inner', []) or [] if not empty(st)]
        if len(stmts) != 1 or stmts[0].get('kind') != 'ReturnStmt' or not stmts[0].get('inner'):
            return None
        if self.contains_kind(stmts[0], ('CXXThrowExpr', 'LambdaExpr')):
            return None
        info['accessor'] = stmts[0]['inner'][0]
        return info['accessor']

    def inline_accessor(self, info, obj_addr, args, n):
        ret = self.trivial_accessor(info)
        if ret is None:
            return None
        d = info['node']
        params = [c for c in d.get('inner', []) if c.get('kind') == 'ParmVarDecl']
        if len(args) != len(params) or any(a.get('kind') == 'CXXDefaultArgExpr' for a in args):
            return None
        sub = FunctionBody(self.tr, info)
        sub.zero_ret = self.zero_ret          # hoisted "if (wb_thrown) return" statements land in the caller
        sub.pre = self.pre
        sub.no_hoist = self.no_hoist
        sub.calls = self.calls
        sub.refvars = set()
        for p_, a in zip(params, args):
            pt = self.tr.ctype(p_['type'].get('desugaredQualType') or p_['type']['qualType'], info['tu'], p_)
            txt = self.expr(a)
            if re.search(r'(\+\+|--|[^=!<>]=[^=])', txt):
                return None
            sub.subst[p_['id']] = '(' + txt + ')'
        if obj_addr is not None:
            sub.this_text = '(' + obj_addr + ')' if not re.match(r'^\w+$', obj_addr) else obj_addr
        try:
            if info.get('ret_ref'):
                return sub.expr(sub.strip(ret))      # the returned lvalue itself
            return '(' + sub.expr(ret) + ')'
        finally:
            self.throws = self.throws or sub.throws

    def call_user(self, cn, obj_addr, args, decl, n):
        info = self.tr.funcs[cn]
        d = info['node']
        if not self.tr.cfg.get('no_accessor_inlining'):
            inl = self.inline_accessor(info, obj_addr, args, n)
            if inl is not None:
                return inl
        a = self.args_of(d, args, n)
        if obj_addr is not None:
            a = [obj_addr] + a
        call = '%s(%s)' % (cn, ', '.join(a))
        maythrow = info.get('throws')
        if maythrow is None:
            # not yet translated: be conservative for non-stubs until translated; decide by scanning for throw
            maythrow = self.scan_throws(info)
        if maythrow:
            self.throws = True
            rc = info['ret'].c + (' *' if info.get('ret_ref') else '')
            if info['ret'].kind == 'void' and not info.get('ret_ref'):
                if self.pre is None or self.no_hoist:
                    brk('may-throw call in a context where hoisting is not modelled', n)
                self.pre.append('%s; if (wb_thrown) { return%s; }' % (call, (' ' + self.zero_ret()) if self.zero_ret() else ''))
                return ''
            t = self.tmp(rc, call)
            self.pre.append('if (wb_thrown) { return%s; }' % ((' ' + self.zero_ret()) if self.zero_ret() else ''))
            call = t
        if info.get('ret_ref'):
            return '(*%s)' % call
        return call

    def scan_throws(self, info, seen=None):
        """Conservative: does the (not yet translated) function contain a throw or call something that may?"""
        if info.get('stub'):
            return bool(info.get('throws'))
        if 'scan_throws' in info:
            return info['scan_throws']
        info['scan_throws'] = False
        tu = info['tu']

        def walk(n):
            if not isinstance(n, dict):
                return False
            if n.get('kind') == 'CXXThrowExpr':
                return True
            if n.get('kind') in ('DeclRefExpr',) and n.get('referencedDecl', {}).get('kind') in FUNC_KINDS:
                d = tu.by_id.get(n['referencedDecl']['id'])
                if d is not None:
                    cn = self.tr.request(tu, d)
                    if self.scan_throws(self.tr.funcs[cn]):
                        return True
            if n.get('kind') == 'MemberExpr' and n.get('referencedMemberDecl') in tu.by_id:
                d = tu.by_id[n['referencedMemberDecl']]
                if d.get('kind') in FUNC_KINDS:
                    cn = self.tr.request(tu, d)
                    if self.scan_throws(self.tr.funcs[cn]):
                        return True
            return any(walk(c) for c in n.get('inner', []) or [])
        r = walk(info['node'])
        info['scan_throws'] = r
        return r

    def e_CallExpr(self, n, stmt=False):
        rd, mem = self.callee_decl(n)
        args = n['inner'][1:]
        decl = self.tu.by_id.get(rd['id'])
        if decl is not None and decl.get('kind') in FUNC_KINDS and not rd['name'].startswith('__builtin_'):
            cn = self.tr.request(self.tu, decl)
            self.calls.add(cn)
            return self.call_user(cn, None, args, decl, n)
        return self.std_call(rd['name'], args, n)

    def std_call(self, name, args, n):
        a = [x for x in args if x.get('kind') != 'CXXDefaultArgExpr']
        if name.startswith('__builtin_'):
            name = name[len('__builtin_'):]
        if name in LIBM1 and len(a) == 1:
            self.tr.shim_used.add('libm:' + name)
            return 'wb_%s(%s)' % (name, self.expr(a[0]))
        if name in LIBM2 and len(a) == 2:
            self.tr.shim_used.add('libm:' + name)
            return 'wb_%s(%s, %s)' % (name, self.expr(a[0]), self.expr(a[1]))
        if name in ('fabs',) and len(a) == 1:
            return 'fabs(%s)' % self.expr(a[0])
        if name == 'abs' and len(a) == 1:
            t = self.ct(a[0])
            if t.c == 'double':
                return 'fabs(%s)' % self.expr(a[0])
            if t.c == 'int':
                return 'wb_abs_int(%s)' % self.expr(a[0])
            brk('abs of %s' % t.c, n)
        if name in ('floor', 'ceil', 'round', 'trunc') and len(a) == 1:
            return '%s(%s)' % (name, self.expr(a[0]))
        if name in ('isnan', 'isinf', 'isfinite', 'signbit') and len(a) == 1:
            return '((_Bool)%s(%s))' % (name, self.expr(a[0]))
        if name == 'copysign' and len(a) == 2:
            return 'copysign(%s, %s)' % (self.expr(a[0]), self.expr(a[1]))
        if name in ('min', 'max') and len(a) == 2:
            t = self.ct(a[0])
            if t.kind != 'scalar':
                brk('std::%s on %s' % (name, t.c), n)
            x = self.hoist_pure(a[0], t)
            y = self.hoist_pure(a[1], t)
            # std::min(a,b) = (b < a) ? b : a ; std::max(a,b) = (a < b) ? b : a
            if name == 'min':
                return '((%s < %s) ? %s : %s)' % (y, x, y, x)
            return '((%s < %s) ? %s : %s)' % (x, y, y, x)
        if name == 'upper_bound' and len(a) == 3 and self.is_double(a[2]):
            # std::upper_bound over a range of doubles (iterators are element pointers): index stub wb_upper_bound_idx
            self.tr.shim_used.add('upper_bound')
            b = self.expr(a[0])
            return '(%s + wb_upper_bound_idx(%s, (size_t)(%s - %s), %s))' % (b, b, self.expr(a[1]), b, self.expr(a[2]))
        if name == 'fill' and len(a) == 3:
            # std::fill(v.begin(), v.end(), value) over a whole vector: every element becomes value
            b_, e_ = self.expr(a[0]), self.expr(a[1])
            m_ = re.match(r'^\(&(.+)\.data\[0\]\)$', b_)
            if m_ and e_ == '(&%s.data[%s.n])' % (m_.group(1), m_.group(1)):
                return 'WB_FILL(%s, %s)' % (m_.group(1), self.expr(a[2]))
            brk('std::fill over a partial range', n)
        if name == 'distance' and len(a) == 2:
            return 'WB_PTRDIFF(%s, %s)' % (self.expr(a[1]), self.expr(a[0]))
        if name == 'move' and len(a) == 1:
            return self.expr(a[0])
        if name == 'to_string' and len(a) == 1:
            self.tr.shim_used.add('string')
            return 'wb_to_string_ul((unsigned long)%s)' % self.expr(a[0])
        if not a and name in ('epsilon', 'max', 'min', 'lowest', 'infinity', 'quiet_NaN', 'signaling_NaN'):
            rt = self.ct(n)
            tab = {('double', 'epsilon'): 'DBL_EPSILON', ('double', 'max'): 'DBL_MAX', ('double', 'min'): 'DBL_MIN',
                   ('double', 'lowest'): '(-DBL_MAX)', ('double', 'infinity'): 'WB_INFINITY',
                   ('double', 'quiet_NaN'): 'WB_QNAN', ('double', 'signaling_NaN'): 'WB_SNAN',
                   ('unsigned int', 'max'): 'UINT_MAX', ('unsigned long', 'max'): 'ULONG_MAX', ('int', 'max'): 'INT_MAX',
                   ('int', 'min'): 'INT_MIN', ('unsigned int', 'min'): '0u', ('unsigned long', 'min'): '0ul',
                   ('unsigned int', 'signaling_NaN'): '0u', ('unsigned int', 'quiet_NaN'): '0u', ('int', 'signaling_NaN'): '0', ('int', 'quiet_NaN'): '0'}
            if (rt.c, name) in tab:
                return tab[(rt.c, name)]
        brk('call of external function %s/%d' % (name, len(a)), n)

    def hoist_pure(self, n, t):
        e = self.expr(n)
        if re.match(r'^[A-Za-z_][A-Za-z_0-9]*$', e) or re.match(r'^[-0-9.xa-fp+]+[ul]*$', e):
            return e
        if self.pre is not None and not self.no_hoist:
            return self.tmp(t.c, e)
        return '(' + e + ')'     # pure expression duplicated textually (no side effects in min/max operands)

    def e_CXXMemberCallExpr(self, n, stmt=False):
        rd, mem = self.callee_decl(n)
        args = n['inner'][1:]
        obj = mem['inner'][0]
        decl = self.tu.by_id.get(rd['id'])
        if decl is not None and decl.get('kind') in FUNC_KINDS:
            cn = self.tr.request(self.tu, decl)
            self.calls.add(cn)
            if mem.get('isArrow'):
                oa = self.expr(obj)
            else:
                oa = self.addr_of(obj)
            info = self.tr.funcs[cn]
            if info.get('this') is not None and 'this' in info:
                pass
            return self.call_user(cn, oa, args, decl, n)
        return self.std_method(mem, obj, args, n, stmt)

    def std_method(self, mem, obj, args, n, stmt):
        name = mem['name']
        ot = self.ct(obj)
        o = self.expr(obj)
        if mem.get('isArrow') and ot.kind == 'ptr':
            ot = ot.pointee
            o = '(*%s)' % o
        a = [x for x in args if x.get('kind') != 'CXXDefaultArgExpr']
        if ot.kind == 'vector':
            if name == 'size' and not a:
                return '%s.n' % o
            if name == 'empty' and not a:
                return '((_Bool)(%s.n == 0))' % o
            if name in ('push_back', 'emplace_back') and len(a) == 1:
                return '%s_push(&%s, %s)' % (ot.name, o, self.expr(a[0]))
            if name in ('front',) and not a:
                return '%s.data[wb_idx(0, %s.n)]' % (o, o)
            if name in ('back',) and not a:
                return '%s.data[wb_idx(%s.n - 1, %s.n)]' % (o, o, o)
            if name == 'data' and not a:
                return '%s.data' % o
            if name == 'begin' and not a:
                return '(&%s.data[0])' % o
            if name == 'end' and not a:
                return '(&%s.data[%s.n])' % (o, o)
            if name == 'resize' and len(a) in (1, 2):
                v = self.expr(a[1]) if len(a) == 2 else self.tr.zero(ot.elem)
                return '%s_resize(&%s, %s, %s)' % (ot.name, o, self.expr(a[0]), v)
            if name == 'insert' and len(a) == 3:
                return '%s_insert_end_range(&%s, %s, %s, %s)' % (ot.name, o, self.expr(a[0]), self.expr(a[1]), self.expr(a[2]))
            if name == 'reserve' and len(a) == 1:
                return '(void)0'
            if name == 'clear' and not a:
                return '%s.n = 0' % o
            if name == 'at' and len(a) == 1:
                return '%s.data[wb_idx(%s, %s.n)]' % (o, self.expr(a[0]), o)
        if ot.kind == 'array':
            if name == 'size' and not a:
                return '%dul' % ot.n
            if name == 'data' and not a:
                return '%s.e' % o
            if name == 'begin' and not a:
                return '(&%s.e[0])' % o
            if name == 'end' and not a:
                return '(&%s.e[%d])' % (o, ot.n)
            if name == 'at' and len(a) == 1:
                return '%s.e[%s]' % (o, self.expr(a[0]))
        if ot.c == 'struct wb_mt19937' and name == 'seed' and len(a) == 1:
            return 'wb_mt19937_seed(&%s, %s)' % (o, self.expr(a[0]))
        if ot.kind == 'thread':
            if name == 'joinable' and not a:
                return '%s.joinable' % o
            if name == 'join' and not a:
                return 'wb_thread_join(&%s)' % o
        if ot.kind == 'ptr' and getattr(ot, 'smart', False):
            if name == 'get' and not a:
                return o
        if ot.kind == 'string':
            if name == 'c_str' and not a:
                return 'wb_string_c_str(%s)' % o
            if name == 'empty' and not a:
                return 'wb_string_is_empty(%s)' % o
        brk('method %s on %s' % (name, ot.c), n)

    def e_CXXOperatorCallExpr(self, n, stmt=False):
        callee = self.strip(n['inner'][0])
        rd = callee['referencedDecl']
        opname = rd['name']
        args = n['inner'][1:]
        decl = self.tu.by_id.get(rd['id'])
        if decl is not None and opname == 'operator=' and (decl.get('isImplicit') or decl.get('explicitlyDefaulted')):
            s_ = '%s = %s' % (self.expr(args[0]), self.expr(args[1]))      # memberwise copy assignment
            return s_ if stmt else '(' + s_ + ')'
        if decl is not None and decl.get('kind') in FUNC_KINDS:
            cn = self.tr.request(self.tu, decl)
            self.calls.add(cn)
            if decl.get('kind') == 'CXXMethodDecl':
                return self.call_user(cn, self.addr_of(args[0]), args[1:], decl, n)
            return self.call_user(cn, None, args, decl, n)
        # std operators
        if opname == 'operator()' and len(args) == 2 and self.ct(args[0]).c in ('struct wb_uniform_real', 'struct wb_normal_dist'):
            kind = 'uniform_real' if self.ct(args[0]).c == 'struct wb_uniform_real' else 'normal'
            call = 'wb_%s_draw(%s, %s)' % (kind, self.addr_of(args[0]), self.addr_of(args[1]))
            return self.tmp('double', call) if (self.pre is not None and not self.no_hoist) else call
        if opname in ('operator->', 'operator*') and args[0].get('kind') == 'ImplicitCastExpr' and \
                args[0].get('castKind') in ('DerivedToBase', 'UncheckedDerivedToBase') and 'shared_ptr' in self.qt(args[0]):
            args = [args[0]['inner'][0]] + list(args[1:])
        t0 = self.ct(args[0])
        if opname == 'operator[]':
            o = self.expr(args[0])
            i = self.expr(args[1])
            if t0.kind == 'vector':
                return '%s.data[wb_idx(%s, %s.n)]' % (o, i, o)
            if t0.kind == 'array':
                return '%s.e[%s]' % (o, i)
        if opname in ('operator->', 'operator*') and t0.kind == 'ptr':
            o = self.expr(args[0])
            return o if opname == 'operator->' else '(*%s)' % o
        if opname in ('operator-', 'operator==', 'operator!=', 'operator<') and len(args) == 2 and t0.kind == 'ptr' and self.ct(args[1]).kind == 'ptr':
            # iterators of std::vector/std::array are element pointers: difference / comparison of two iterators
            if opname == 'operator-':
                return 'WB_PTRDIFF(%s, %s)' % (self.expr(args[0]), self.expr(args[1]))
            return '(%s %s %s)' % (self.expr(args[0]), opname[len('operator'):], self.expr(args[1]))
        if opname == 'operator=' and t0.kind in ('vector', 'array', 'record', 'thread', 'ptr'):
            s = '%s = %s' % (self.expr(args[0]), self.expr(args[1]))
            return s if stmt else '(' + s + ')'
        if t0.kind == 'string':
            t1 = self.qt(args[1]) if len(args) > 1 else ''
            if opname == 'operator==':
                return 'wb_string_eq(%s, %s)' % (self.expr(args[0]), self.str_arg(args[1]))
            if opname == 'operator!=':
                return '(!wb_string_eq(%s, %s))' % (self.expr(args[0]), self.str_arg(args[1]))
            if opname == 'operator=':
                ft = callee['type']['qualType']
                a1 = self.strip(args[1])
                at = strip_cv(self.qt(a1))
                if at == 'char':
                    rhs = 'wb_string_from_char(%s)' % self.expr(args[1])
                elif 'char' in at and ('*' in at or '[' in at):
                    rhs = 'wb_string_from_cstr(%s)' % self.expr(args[1])
                else:
                    rhs = self.expr(args[1])
                s = '%s = %s' % (self.expr(args[0]), rhs)
                return s if stmt else '(' + s + ')'
            if opname == 'operator+':
                return 'wb_string_concat(%s, %s)' % (self.expr(args[0]), self.str_arg(args[1]))
        if opname in ('operator==', 'operator!=') and t0.kind == 'array' and t0.elem.kind == 'scalar':
            x = self.addr_of(args[0])
            y = self.addr_of(args[1])
            eq = ' && '.join('(%s)->e[%d] == (%s)->e[%d]' % (x, i, y, i) for i in range(t0.n))
            return '(%s)' % eq if opname == 'operator==' else '(!(%s))' % eq
        brk('operator %s on %s' % (opname, t0.c), n)

    def str_lit(self, a):
        """std::string built from a string literal: an opaque handle determined by the literal's content"""
        x = self.strip(a)
        while x.get('kind') in ('ImplicitCastExpr', 'MaterializeTemporaryExpr', 'CXXBindTemporaryExpr') and x.get('inner'):
            x = self.strip(x['inner'][0])
        if x.get('kind') == 'StringLiteral':
            import zlib
            txt = json.loads(x['value']) if x['value'].startswith('"') else x['value']
            return 'wb_string_lit(0x%xul) /* %s */' % ((zlib.crc32(txt.encode()) | 0x100000000) if txt else 0, x['value'][:40].replace('*/', ''))
        return None

    def str_arg(self, a):
        at = strip_cv(self.qt(self.strip(a)))
        if 'char' in at and ('*' in at or '[' in at):
            lit = self.str_lit(a)
            return lit if lit else 'wb_string_from_cstr(%s)' % self.expr(a)
        return self.expr(a)

    def e_CXXNewExpr(self, n):
        if n.get('isArray') or n.get('isPlacement'):
            brk('array / placement new', n)
        pt = self.ct(n)
        init = [c for c in n.get('inner', []) if c.get('kind')]
        if len(init) != 1:
            brk('new expression form', n)
        val = self.expr(init[0])
        t = self.tmp(pt.c, '(%s)malloc(sizeof(%s))' % (pt.c, pt.pointee.c))
        self.pre.append('*%s = %s;' % (t, val))
        self.tr.dropped.append('heap allocation failure of new is not modelled')
        return t

    def e_CXXDeleteExpr(self, n):
        self.tr.dropped.append('destructor body run by delete is not translated (delete -> free)')
        return 'free(%s)' % self.expr(n['inner'][0])

    def e_LambdaExpr(self, n):
        brk('lambda', n)

    def e_UnaryExprOrTypeTraitExpr(self, n):
        brk('sizeof/alignof', n)


# ----------------------------------------------------------------------------- driver

def translate(targets, config=None):
    """targets: list of dict(tu=path relative to REPO, qual=..., sig=optional substring, cname=...)."""
    tr = Translator(config)
    for t in targets:
        path = t['tu'] if os.path.isabs(t['tu']) else os.path.join(REPO, t['tu'])
        tu = get_tu(path, t.get('filter', 'WorldBuilder'))
        f = tu.find_function(t['qual'], t.get('sig'), first_of_many=t.get('first_of_many', False))
        if f is None:
            raise ExtractionBreak('target %s (sig %s) not found in %s' % (t['qual'], t.get('sig'), t['tu']))
        tr.request(tu, f, t.get('cname'))
    tr.run()
    return tr


if __name__ == '__main__':
    import argparse
    ap = argparse.ArgumentParser()
    ap.add_argument('tu')
    ap.add_argument('qual')
    ap.add_argument('--sig')
    ap.add_argument('--cname')
    ap.add_argument('--stub', action='append', default=[])
    ap.add_argument('--alias', action='append', default=[], help='qual|sig=cname')
    ap.add_argument('--outline', action='store_true')
    ap.add_argument('--stub-prefix', action='append', default=[])
    ap.add_argument('--whole', action='store_true', help='dump the whole TU (functions outside namespace WorldBuilder)')
    a = ap.parse_args()
    aliases = dict(x.rsplit('=', 1) for x in a.alias)
    try:
        tr = translate([dict(tu=a.tu, qual=a.qual, sig=a.sig, cname=a.cname, filter='' if a.whole else 'WorldBuilder')], dict(stub=a.stub, aliases=aliases, outline_fp=a.outline, stub_prefixes=a.stub_prefix))
        sys.stdout.write(tr.emit())
        for d in sorted(set(tr.dropped)):
            sys.stderr.write('dropped: %s\n' % d)
    except ExtractionBreak as e:
        sys.stderr.write('EXTRACTION BREAK: %s\n' % e)
        sys.exit(2)
