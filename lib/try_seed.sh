#!/bin/bash
# try_seed.sh <seed dir name> <property id> [extra check args]: apply a seeded change to /repo, run the check, undo it.
S=/verif/seeded/$1; P=$2; shift 2
cd /repo && git apply $S/patch.diff || exit 2
cd /verif && ./check $P "$@"; RC=$?
git -C /repo checkout -- . 
echo "seed=$(basename $S) property=$P exit=$RC"
