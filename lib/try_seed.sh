#!/bin/bash
# try_seed.sh <seed dir name> <property id> [extra check args]: apply a seeded change to a scratch worktree of /repo (never to /repo
# itself), run the check against it (GWB_REPO names the tree the translator and the native build read) and remove the worktree.
S=/verif/seeded/$1; P=$2; shift 2
WT=$(mktemp -d /tmp/gwbv-seed-XXXXXX)
git -C /repo worktree add --detach "$WT" HEAD > /dev/null 2>&1 || { echo "cannot create worktree"; exit 2; }
( cd "$WT" && git apply "$S/patch.diff" ) || { git -C /repo worktree remove --force "$WT"; exit 2; }
cd /verif && GWB_REPO="$WT" ./check $P "$@"; RC=$?
git -C /repo worktree remove --force "$WT"; git -C /repo worktree prune
echo "seed=$(basename $S) property=$P exit=$RC (evidence/$P.json now describes the seeded tree: re-run ./check $P to restore it)"
