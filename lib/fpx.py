#!/usr/bin/env python3
"""FPX(expr) - spec-side twin of cxx2c's floating-point outlining.

Both sides turn a floating-point expression tree over + - * / unary- and libm calls into an application of an
uninterpreted function that is *named after the tree structure* (prefix notation, one parameter per leaf
occurrence, constants spelled by their hex value), e.g.   o + x*u   ->   E_add_a_mul_a_a(o, x, u).
Two expressions get the same symbol iff they have the same structure, so SAME(code_value, FPX(documented
formula)) is decided by congruence alone (no multiplier circuits), and it fails when the code computes a
differently shaped expression or feeds different operands.
"""
import re, hashlib

LIBM = {'sqrt', 'exp', 'sin', 'cos', 'tan', 'asin', 'acos', 'atan', 'erfc', 'erf', 'log', 'log10', 'sinh', 'cosh',
        'tanh', 'cbrt', 'atan2', 'pow', 'fmod', 'hypot'}
OPN = {'+': 'add', '-': 'sub', '*': 'mul', '/': 'div'}


def const_token(v):
    h = float(v).hex() if float(v) != 0 else '0x0p+0'
    return 'k' + h.replace('.', '_').replace('+', 'P').replace('-', 'M')


def symbol(structure):
    """structure: nested tuple ('add', l, r) | ('neg', x) | ('fn', name, args...) | ('a',) | ('k', value)."""
    def flat(s):
        if s[0] == 'a':
            return 'a'
        if s[0] == 'k':
            return const_token(s[1])
        if s[0] == 'fn':
            return s[1] + '_' + '_'.join(flat(x) for x in s[2:])
        return s[0] + '_' + '_'.join(flat(x) for x in s[1:])
    name = 'E_' + flat(structure)
    if len(name) > 100:
        name = 'E_h' + hashlib.sha1(name.encode()).hexdigest()[:14]
    return name


def arity(s):
    if s[0] == 'a':
        return 1
    if s[0] == 'k':
        return 0
    return sum(arity(x) for x in (s[2:] if s[0] == 'fn' else s[1:]))


def concrete(s, params):
    """C text of the structure over parameter names (consumed left to right)."""
    it = iter(params)

    def go(s):
        if s[0] == 'a':
            return next(it)
        if s[0] == 'k':
            v = float(s[1])
            return v.hex() if v != 0 else '0.0'
        if s[0] == 'neg':
            return '(-%s)' % go(s[1])
        if s[0] == 'fn':
            return 'wb_%s(%s)' % (s[1], ', '.join(go(x) for x in s[2:]))
        sym = {'add': '+', 'sub': '-', 'mul': '*', 'div': '/'}[s[0]]
        l = go(s[1])
        r = go(s[2])
        return '(%s %s %s)' % (l, sym, r)
    return go(s)


def weight(s, all_ops=False):
    """number of *, / and libm nodes (with all_ops also + - neg): only expressions with weight >= 1 are outlined"""
    if s[0] in ('a', 'k'):
        return 0
    w = 1 if (s[0] in ('mul', 'div', 'fn') or all_ops) else 0
    return w + sum(weight(x, all_ops) for x in (s[2:] if s[0] == 'fn' else s[1:]))


def declaration(name, s):
    n = arity(s)
    params = ['double a%d' % i for i in range(n)] or ['void']
    body = concrete(s, ['a%d' % i for i in range(n)])
    return ('#ifndef DECL_%s\n#define DECL_%s\n#if defined(WB_NATIVE) || defined(WB_CONCRETE_FP)\n'
            'static inline double %s(%s) { return %s; }\n#else\n'
            'double __CPROVER_uninterpreted_%s(%s);\n'
            'static inline double %s(%s) { double r_ = __CPROVER_uninterpreted_%s(%s); return r_ != r_ ? WB_QNAN : r_; }\n#endif\n#endif\n'
            % (name, name, name, ', '.join(params), body, name, ', '.join(['double'] * n) or 'void',
               name, ', '.join(params), name, ', '.join('a%d' % i for i in range(n))))


# ------------------------------------------------------------------ spec-side parser

TOK = re.compile(r'\s*(?:(\d+\.?\d*(?:[eE][-+]?\d+)?|\.\d+(?:[eE][-+]?\d+)?|0x[0-9a-fA-F.]+p[-+]?\d+)|([A-Za-z_]\w*)|(->|[-+*/(),.\[\]]))')


class P:
    def __init__(self, text):
        self.t = text
        self.i = 0
        self.atoms = []

    def peek(self):
        m = TOK.match(self.t, self.i)
        if not m:
            return None, None, self.i
        return (m.group(1), m.group(2), m.group(3)), m, m.end()

    def ws(self):
        while self.i < len(self.t) and self.t[self.i].isspace():
            self.i += 1

    def expr(self):
        l = self.term()
        while True:
            self.ws()
            if self.i < len(self.t) and self.t[self.i] in '+-':
                op = self.t[self.i]
                self.i += 1
                r = self.term()
                l = (OPN[op], l, r)
            else:
                return l

    def term(self):
        l = self.unary()
        while True:
            self.ws()
            if self.i < len(self.t) and self.t[self.i] in '*/':
                op = self.t[self.i]
                self.i += 1
                r = self.unary()
                l = (OPN[op], l, r)
            else:
                return l

    def unary(self):
        self.ws()
        if self.i < len(self.t) and self.t[self.i] == '-':
            self.i += 1
            x = self.unary()
            if x[0] == 'k':
                return ('k', -float(x[1]))
            return ('neg', x)
        return self.primary()

    def balanced(self, open_, close):
        depth = 0
        start = self.i
        while self.i < len(self.t):
            c = self.t[self.i]
            if c == open_:
                depth += 1
            elif c == close:
                depth -= 1
                if depth == 0:
                    self.i += 1
                    return self.t[start:self.i]
            self.i += 1
        raise ValueError('unbalanced in FPX: ' + self.t)

    def primary(self):
        self.ws()
        c = self.t[self.i]
        if c == '(':
            self.i += 1
            e = self.expr()
            self.ws()
            assert self.t[self.i] == ')', 'FPX: expected ) in ' + self.t
            self.i += 1
            return e
        m = re.compile(r'(0x[0-9a-fA-F.]+p[-+]?\d+|\d+\.?\d*(?:[eE][-+]?\d+)?|\.\d+(?:[eE][-+]?\d+)?)').match(self.t, self.i)
        if m:
            self.i = m.end()
            txt = m.group(1)
            return ('k', float.fromhex(txt) if txt.startswith('0x') else float(txt))
        m = re.compile(r'[A-Za-z_]\w*').match(self.t, self.i)
        if not m:
            raise ValueError('FPX: cannot parse at %r' % self.t[self.i:])
        ident = m.group(0)
        start = self.i
        self.i = m.end()
        self.ws()
        if ident in LIBM and self.i < len(self.t) and self.t[self.i] == '(':
            self.i += 1
            args = [self.expr()]
            self.ws()
            while self.t[self.i] == ',':
                self.i += 1
                args.append(self.expr())
                self.ws()
            assert self.t[self.i] == ')'
            self.i += 1
            return ('fn', ident) + tuple(args)
        # atom: identifier with postfix .x ->x [..] (..)
        while self.i < len(self.t):
            self.ws()
            if self.t.startswith('->', self.i):
                self.i += 2
                m2 = re.compile(r'\s*[A-Za-z_]\w*').match(self.t, self.i)
                self.i = m2.end()
            elif self.t[self.i] == '.':
                self.i += 1
                m2 = re.compile(r'\s*[A-Za-z_]\w*').match(self.t, self.i)
                self.i = m2.end()
            elif self.t[self.i] == '[':
                self.balanced('[', ']')
            elif self.t[self.i] == '(':
                self.balanced('(', ')')
            else:
                break
        self.atoms.append(self.t[start:self.i].strip())
        return ('a',)


def expand(text, decls):
    """Replace every FPX(...) / FPXA(...) in a contract file; collects needed declarations into decls {name: text}.
    FPX outlines trees that contain * / or libm; FPXA (used with outline_fp='all') also pure + - trees."""
    out = []
    i = 0
    while True:
        m = re.compile(r'(?<![A-Za-z0-9_])FPXA?\(').search(text, i)
        if not m:
            out.append(text[i:])
            break
        j = m.start()
        all_ops = text[j:m.end()] == 'FPXA('
        out.append(text[i:j])
        # find balanced end
        depth = 0
        k = m.end() - 1
        while True:
            ch = text[k]
            if ch == '(':
                depth += 1
            elif ch == ')':
                depth -= 1
                if depth == 0:
                    break
            k += 1
        inner = text[m.end():k]
        p = P(inner)
        s = p.expr()
        p.ws()
        if p.i != len(inner):
            raise ValueError('FPX: trailing text in %r' % inner)
        if weight(s, all_ops) == 0:
            out.append('(' + concrete(s, p.atoms) + ')')
        else:
            name = symbol(s)
            decls[name] = declaration(name, s)
            out.append('%s(%s)' % (name, ', '.join(p.atoms)))
        i = k + 1
    return ''.join(out)


if __name__ == '__main__':
    import sys
    d = {}
    print(expand(sys.argv[1], d))
    for v in d.values():
        print(v)
