#!/bin/bash
# runs every claimed check (quick tier) and prints one line each
cd /verif
for p in $(python3 -c "import json; print(' '.join(c['property_id'] for c in json.load(open('MANIFEST.json'))['checks']))"); do
  s=$(date +%s); out=$(./check $p 2>&1 | tail -1); echo "$p exit=$? $(( $(date +%s) - s ))s :: $out"
done
