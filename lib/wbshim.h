/* wbshim.h - the trusted library shims of cxx2c (listed in every evidence file).
 *
 * Under CBMC (default): libm is uninterpreted (wb_exp == __CPROVER_uninterpreted_exp ...), vectors are
 * {data,n,cap} with a capacity assertion on growth (a *model bound*: a failure of "MODEL-BOUND" is
 * reported as undecided, never as a violation), strings are opaque handles.
 * Under -DWB_NATIVE the same generated C compiles against libm/malloc for translation validation.
 */
#ifndef WBSHIM_H
#define WBSHIM_H
#include <stddef.h>
#include <float.h>
#include <limits.h>
#include <math.h>
#include <stdlib.h>

#ifndef WB_VEC_CAP
#define WB_VEC_CAP 64
#endif

extern _Bool wb_thrown;   /* models a pending std::exception (WBAssertThrow / throw) */

#ifdef WB_NATIVE
#define WB_ASSERT(c, msg) do { if (!(c)) { abort(); } } while (0)
#define wb_sqrt sqrt
#define wb_exp exp
#define wb_sin sin
#define wb_cos cos
#define wb_tan tan
#define wb_asin asin
#define wb_acos acos
#define wb_atan atan
#define wb_atan2 atan2
#define wb_pow pow
#define wb_erfc erfc
#define wb_erf erf
#define wb_log log
#define wb_fmod fmod
#define wb_cbrt cbrt
#define wb_log10 log10
#define wb_sinh sinh
#define wb_cosh cosh
#define wb_tanh tanh
#define wb_hypot hypot
#else
#ifdef WB_FRAME_ONLY
/* frame-only units: index/capacity conditions are assumed (executions with undefined behaviour are outside the frame
 * statement), so that the unconstrained harness does not produce hundreds of irrelevant failing assertions */
#define WB_ASSERT(c, msg) __CPROVER_assume(c)
#else
#define WB_ASSERT(c, msg) __CPROVER_assert(c, msg)
#endif
double __CPROVER_uninterpreted_sqrt(double);
double __CPROVER_uninterpreted_exp(double);
double __CPROVER_uninterpreted_sin(double);
double __CPROVER_uninterpreted_cos(double);
double __CPROVER_uninterpreted_tan(double);
double __CPROVER_uninterpreted_asin(double);
double __CPROVER_uninterpreted_acos(double);
double __CPROVER_uninterpreted_atan(double);
double __CPROVER_uninterpreted_atan2(double, double);
double __CPROVER_uninterpreted_pow(double, double);
double __CPROVER_uninterpreted_erfc(double);
double __CPROVER_uninterpreted_erf(double);
double __CPROVER_uninterpreted_log(double);
double __CPROVER_uninterpreted_fmod(double, double);
double __CPROVER_uninterpreted_cbrt(double);
double __CPROVER_uninterpreted_log10(double);
double __CPROVER_uninterpreted_sinh(double);
double __CPROVER_uninterpreted_cosh(double);
double __CPROVER_uninterpreted_tanh(double);
double __CPROVER_uninterpreted_hypot(double, double);
#define wb_sqrt __CPROVER_uninterpreted_sqrt
#define wb_exp __CPROVER_uninterpreted_exp
#define wb_sin __CPROVER_uninterpreted_sin
#define wb_cos __CPROVER_uninterpreted_cos
#define wb_tan __CPROVER_uninterpreted_tan
#define wb_asin __CPROVER_uninterpreted_asin
#define wb_acos __CPROVER_uninterpreted_acos
#define wb_atan __CPROVER_uninterpreted_atan
#define wb_atan2 __CPROVER_uninterpreted_atan2
#define wb_pow __CPROVER_uninterpreted_pow
#define wb_erfc __CPROVER_uninterpreted_erfc
#define wb_erf __CPROVER_uninterpreted_erf
#define wb_log __CPROVER_uninterpreted_log
#define wb_fmod __CPROVER_uninterpreted_fmod
#define wb_cbrt __CPROVER_uninterpreted_cbrt
#define wb_log10 __CPROVER_uninterpreted_log10
#define wb_sinh __CPROVER_uninterpreted_sinh
#define wb_cosh __CPROVER_uninterpreted_cosh
#define wb_tanh __CPROVER_uninterpreted_tanh
#define wb_hypot __CPROVER_uninterpreted_hypot
#endif

/* results of the structurally named floating-point symbols (fpx.py) are NaN-canonical: every NaN result is the one
 * quiet NaN below, so that payload-insensitive equality (SAME) of two computed values implies bit-identity.  The
 * translated code never inspects NaN payloads and no specification speaks about them. */
#define WB_CANON(x) ((x) != (x) ? WB_QNAN : (x))
#define WB_INFINITY (1.0 / 0.0)
static const union { unsigned long u; double d; } wb_qnan_u = { 0x7ff8000000000000ul };
#define WB_QNAN (wb_qnan_u.d)                  /* the canonical quiet NaN (an lvalue: usable with SAMEL) */
#define WB_SNAN (wb_qnan_u.d)

static inline int wb_abs_int(int x) { return x < 0 ? -x : x; }

#ifdef WB_NATIVE
#define WB_LOOP_CONTRACT(x)
#define WB_ARRAY_SET(p, n, v) do { for (size_t wb_q = 0; wb_q < (n); wb_q++) (p)[wb_q] = (v); } while (0)
#else
#define WB_LOOP_CONTRACT(x) x
#define WB_ARRAY_SET(p, n, v) __CPROVER_array_set(p, v)
#endif

/* ---- std::vector<T>: struct with embedded typed storage of WB_CAP_<name> elements (no heap, no pointers:
 * copies are deep like in C++, and CBMC sees typed arrays).  Growth asserts the model bound; element access
 * asserts index < size (which std::vector leaves undefined). ---- */
#ifdef WB_NATIVE
static inline size_t wb_idx(size_t i, size_t n) { WB_ASSERT(i < n, "vector index within size"); return i; }
#else
/* a macro, not a function: every function call costs DFCC write-set plumbing (index expressions are side-effect free) */
#ifdef WB_FRAME_ONLY
#define wb_idx(i, n) ((void)__CPROVER_assume((size_t)(i) < (size_t)(n)), (size_t)(i))
#else
#define wb_idx(i, n) ((void)__CPROVER_assert((size_t)(i) < (size_t)(n), "vector index within size"), (size_t)(i))
#endif
#endif
#define WB_VEC_SHIMS(NAME, T)                                                                           \
  static inline void NAME##_push(struct NAME *v, T x)                                                   \
  { WB_ASSERT(v->n < WB_CAP_##NAME, "MODEL-BOUND vector capacity"); v->data[v->n] = x; v->n = v->n + 1; } \
  static inline struct NAME NAME##_new_empty(void)                                                      \
  { struct NAME v; v.n = 0; return v; }                                                                 \
  static inline void NAME##_resize(struct NAME *v, size_t cnt, T val)                                    \
  { WB_ASSERT(v->n == 0, "MODEL-BOUND resize() is modelled for an empty vector only");                   \
    WB_ASSERT(cnt <= WB_CAP_##NAME, "MODEL-BOUND vector capacity");                                      \
    { struct NAME wb_t_; WB_ARRAY_SET(wb_t_.data, WB_CAP_##NAME, val); wb_t_.n = cnt; *v = wb_t_; } }  /* array_set on a stand-alone object: it runs to the end of the object */                                             \
  static inline struct NAME NAME##_new_fill(size_t cnt, T val)                                           \
  { struct NAME v; WB_ASSERT(cnt <= WB_CAP_##NAME, "MODEL-BOUND vector capacity");                       \
    WB_ARRAY_SET(v.data, WB_CAP_##NAME, val); v.n = cnt; return v; }

/* content-carrying operations, scalar element types only.  The loop of insert(end(), b, e) is closed by an
 * invariant that speaks about one arbitrary slot wb_g_slot (a ghost index chosen by the harness and never
 * assigned): slots below the old size keep their value, the slot inside the appended range holds the
 * source element. */
extern size_t wb_g_slot;
#define WB_SAME(a, b) (*(const unsigned long *)&(a) == *(const unsigned long *)&(b))   /* bit-identical lvalues (8-byte T) */
#define WB_VEC_SHIMS_SCALAR(NAME, T)                                                                     \
  static inline void NAME##_insert_end_range(struct NAME *v, T *pos, const T *b, const T *e)             \
  { WB_ASSERT(pos == &v->data[v->n], "shim: insert() is modelled at end() only");                         \
    size_t cnt = (size_t)(e - b); size_t n0 = v->n;                                                      \
    WB_ASSERT(cnt <= WB_CAP_##NAME && n0 <= WB_CAP_##NAME - cnt, "MODEL-BOUND vector capacity");                        \
    T g0 = (wb_g_slot < n0) ? v->data[wb_g_slot] : (T)0;                                                 \
    for (size_t q = 0; q < cnt; q++)                                                                     \
      WB_LOOP_CONTRACT(__CPROVER_assigns(q, v->n, __CPROVER_object_whole(v)))                      \
      WB_LOOP_CONTRACT(__CPROVER_loop_invariant(q <= cnt && v->n == n0 + q))                             \
      WB_LOOP_CONTRACT(__CPROVER_loop_invariant(wb_g_slot < n0 ==> WB_SAME(v->data[wb_g_slot], g0)))     \
      WB_LOOP_CONTRACT(__CPROVER_loop_invariant((n0 <= wb_g_slot && wb_g_slot < n0 + q) ==> WB_SAME(v->data[wb_g_slot], b[wb_g_slot - n0]))) \
      WB_LOOP_CONTRACT(__CPROVER_decreases(cnt - q))                                                     \
    { v->data[v->n] = b[q]; v->n = v->n + 1; }                                                           \
  }

/* ---- std::string: opaque handle (identity of content) ---- */
struct wb_string { unsigned long h; };
#ifndef WB_NATIVE
unsigned long __CPROVER_uninterpreted_str_of_cstr(const char *);
unsigned long __CPROVER_uninterpreted_str_of_char(char);
unsigned long __CPROVER_uninterpreted_str_concat(unsigned long, unsigned long);
unsigned long __CPROVER_uninterpreted_str_of_ulong(unsigned long);
static inline struct wb_string wb_string_from_cstr(const char *s) { struct wb_string r = { __CPROVER_uninterpreted_str_of_cstr(s) }; return r; }
static inline struct wb_string wb_string_from_char(char c) { struct wb_string r = { __CPROVER_uninterpreted_str_of_char(c) }; return r; }
static inline struct wb_string wb_string_concat(struct wb_string a, struct wb_string b) { struct wb_string r = { __CPROVER_uninterpreted_str_concat(a.h, b.h) }; return r; }
static inline struct wb_string wb_to_string_ul(unsigned long x) { struct wb_string r = { __CPROVER_uninterpreted_str_of_ulong(x) }; return r; }
/* a std::string built from a string literal: the handle is a hash of the literal's content (0 = empty string) */
static inline struct wb_string wb_string_lit(unsigned long h) { struct wb_string r = { h }; return r; }
static inline struct wb_string wb_string_empty(void) { struct wb_string r = { 0 }; return r; }
static inline _Bool wb_string_eq(struct wb_string a, struct wb_string b) { return a.h == b.h; }
static inline _Bool wb_string_is_empty(struct wb_string a) { return a.h == 0; }
#endif

/* ---- std::thread(f, first, last): the launch is a ghost event WB_LAUNCH(first,last) defined by the contract file;
 * a thread object remembers that it must be joined ---- */
struct wb_lambda { char unused_; };            /* a closure object passed through (never called by translated code) */
struct wb_thread { _Bool joinable; size_t first; size_t last; };
#ifndef WB_LAUNCH
#define WB_LAUNCH(a, b)
#endif
#ifndef WB_JOIN
#define WB_JOIN(t)
#endif
static inline struct wb_thread wb_thread_none(void) { struct wb_thread t = { 0, 0, 0 }; return t; }
static inline struct wb_thread wb_thread_launch(size_t a, size_t b) { struct wb_thread t = { 1, a, b }; WB_LAUNCH(a, b); return t; }
static inline void wb_thread_join(struct wb_thread *t) { WB_ASSERT(t->joinable, "join of a joinable thread"); WB_JOIN(t); t->joinable = 0; }

/* std::fill over a whole vector: all elements (the storage beyond size() is not observable) */
#ifdef WB_NATIVE
#define WB_FILL(v, val) do { for (size_t k_ = 0; k_ < (v).n; k_++) (v).data[k_] = (val); } while (0)
#else
/* (__CPROVER_array_set runs to the end of the enclosing object and would clobber the size and later members - measured - and
 * reads of a set array at a symbolic index were not decided; hence explicit assignments, for capacities up to 16) */
#define WB_FILL1(v, val, k) if (wb_c_ > (k)) (v).data[(k) < sizeof((v).data) / sizeof((v).data[0]) ? (k) : 0] = (val);
#define WB_FILL(v, val) do { const size_t wb_c_ = sizeof((v).data) / sizeof((v).data[0]); \
    __CPROVER_assert(wb_c_ <= 16, "MODEL-BOUND std::fill is modelled for capacities up to 16"); \
    WB_FILL1(v, val, 0) WB_FILL1(v, val, 1) WB_FILL1(v, val, 2) WB_FILL1(v, val, 3) WB_FILL1(v, val, 4) WB_FILL1(v, val, 5) WB_FILL1(v, val, 6) WB_FILL1(v, val, 7) \
    WB_FILL1(v, val, 8) WB_FILL1(v, val, 9) WB_FILL1(v, val, 10) WB_FILL1(v, val, 11) WB_FILL1(v, val, 12) WB_FILL1(v, val, 13) WB_FILL1(v, val, 14) WB_FILL1(v, val, 15) } while (0)
#endif
/* difference of two iterators of one container (element pointers).  CBMC's signed-overflow check flags a negative
 * difference of two pointers into the same object (measured: &data[2] - &data[3]); the difference is therefore taken on
 * the offsets, with the same-object condition as an obligation */
#ifdef WB_NATIVE
#define WB_PTRDIFF(a, b) ((a) - (b))
#else
#define WB_PTRDIFF(a, b) ((void)__CPROVER_assert(__CPROVER_same_object((a), (b)), "iterator difference within one container"), \
                          ((long)__CPROVER_POINTER_OFFSET(a) - (long)__CPROVER_POINTER_OFFSET(b)) / (long)sizeof(*(a)))
#endif
/* std::upper_bound over doubles: position k in [0,n] with !(v < d[k-1]) (k > 0) and v < d[k] (k < n) - what the
 * binary search returns on any input; a contract stub (the units give its contract), never a loop */
size_t wb_upper_bound_idx(const double *d, size_t n, double v);

/* ---- std::mt19937 and distributions: opaque state ---- */
struct wb_mt19937 { unsigned long state; };
/* engine.seed(s): the state becomes a function of s alone (ghost event WB_SEEDED for contracts) */
#ifndef WB_SEEDED
#define WB_SEEDED(s)
#endif
unsigned long __CPROVER_uninterpreted_mt19937_state_of_seed(unsigned int);
static inline void wb_mt19937_seed(struct wb_mt19937 *e, unsigned int s) { e->state = __CPROVER_uninterpreted_mt19937_state_of_seed(s); WB_SEEDED(s); }
static inline struct wb_mt19937 wb_mt19937_ctor(unsigned long s) { struct wb_mt19937 e; wb_mt19937_seed(&e, (unsigned int)(s & 0xFFFFFFFFul)); return e; }  /* mt19937 reduces the seed modulo 2^32 */
struct wb_uniform_real { double a; double b; };
struct wb_normal_dist { double mean; double stddev; };
/* drawing from a distribution: contract stubs (the engine state is the only thing assigned) */
double wb_uniform_real_draw(struct wb_uniform_real *dist, struct wb_mt19937 *engine);
double wb_normal_draw(struct wb_normal_dist *dist, struct wb_mt19937 *engine);

#endif
