#!/usr/bin/env python3
"""Native side: a library built from /repo's *current working tree* (scratch dir outside /repo and /verif, cached by
a hash of the sources so an unchanged tree is not rebuilt by every check), replay drivers, translation validation."""
import os, sys, subprocess, hashlib, shutil, time, json, fcntl

REPO = os.environ.get('GWB_REPO', '/repo')
CACHE = os.environ.get('GWB_CACHE', '/var/tmp/gwbv-cache')
HERE = os.path.dirname(os.path.abspath(__file__))
VERIF = os.path.dirname(HERE)


def tree_hash():
    h = hashlib.sha256()
    roots = ['source', 'include', 'CMakeLists.txt', 'cmake', 'tests/CMakeLists.txt']
    for r in roots:
        p = os.path.join(REPO, r)
        if os.path.isfile(p):
            h.update(r.encode())
            h.update(open(p, 'rb').read())
            continue
        for d, dn, fn in sorted(os.walk(p)):
            dn.sort()
            for f in sorted(fn):
                fp = os.path.join(d, f)
                h.update(os.path.relpath(fp, REPO).encode())
                try:
                    h.update(open(fp, 'rb').read())
                except OSError:
                    pass
    return h.hexdigest()[:16]


def build(defines=()):
    """Returns dict(dir, lib, include, gwb_dat, gwb_grid). Builds with cmake+ninja (the test suite's configuration:
    RelWithDebInfo, unity build) if this exact tree was not built before."""
    os.makedirs(CACHE, exist_ok=True)
    key = tree_hash() + ('-' + hashlib.sha1(' '.join(defines).encode()).hexdigest()[:6] if defines else '')
    d = os.path.join(CACHE, key)
    lock = open(os.path.join(CACHE, '.lock'), 'w')
    fcntl.flock(lock, fcntl.LOCK_EX)
    try:
        info = dict(dir=d, lib=os.path.join(d, 'lib', 'libWorldBuilder.a'), include=os.path.join(d, 'include'),
                    gwb_dat=os.path.join(d, 'bin', 'gwb-dat'), gwb_grid=os.path.join(d, 'bin', 'gwb-grid'))
        if os.path.exists(os.path.join(d, '.ok')):
            os.utime(d)
            return info
        # keep at most two other cached builds
        olds = sorted([os.path.join(CACHE, x) for x in os.listdir(CACHE) if os.path.isdir(os.path.join(CACHE, x))],
                      key=lambda p: os.path.getmtime(p))
        for o in olds[:-1]:
            shutil.rmtree(o, ignore_errors=True)
        shutil.rmtree(d, ignore_errors=True)
        os.makedirs(d)
        cxxflags = ' '.join('-D' + x for x in defines)
        cmd = ['cmake', '-G', 'Ninja', '-S', REPO, '-B', d, '-DCMAKE_BUILD_TYPE=RelWithDebInfo', '-DWB_ENABLE_TESTS=OFF',
               '-DWB_ENABLE_PYTHON=OFF', '-DWB_ENABLE_HELPER_TARGETS=OFF', '-DWB_MAKE_FORTRAN_WRAPPER=OFF',
               '-DWB_ENABLE_APPS=ON', '-DCMAKE_CXX_FLAGS=' + cxxflags]
        r = subprocess.run(cmd, capture_output=True, text=True)
        if r.returncode != 0:
            raise RuntimeError('cmake configure failed: ' + r.stderr[-2000:])
        r = subprocess.run(['cmake', '--build', d, '-j', '16'], capture_output=True, text=True)
        if r.returncode != 0:
            raise RuntimeError('native build of /repo failed: ' + (r.stdout + r.stderr)[-3000:])
        # drop object files, keep lib, binaries, generated include
        for sub in ('CMakeFiles',):
            shutil.rmtree(os.path.join(d, sub), ignore_errors=True)
        open(os.path.join(d, '.ok'), 'w').write(key)
        return info
    finally:
        fcntl.flock(lock, fcntl.LOCK_UN)
        lock.close()


def compile_driver(src, out, info, extra=()):
    cmd = ['g++', '-std=c++14', '-O1', '-g', '-DNDEBUG', '-DWB_WITH_ZLIB', '-I' + os.path.join(REPO, 'include'),
           '-I' + info['include'], '-I' + HERE, src, info['lib'], '-lz', '-lpthread', '-o', out] + list(extra)
    r = subprocess.run(cmd, capture_output=True, text=True)
    if r.returncode != 0:
        raise RuntimeError('driver compile failed: ' + r.stderr[-3000:])
    return out


if __name__ == '__main__':
    t = time.time()
    print(json.dumps(build(), indent=1), round(time.time() - t, 1))
