"""Helpers for native replay oracles: the gwbq tool (real library of the current tree) driven over pipes."""
import os, subprocess, sys, hashlib, struct
HERE = os.path.dirname(os.path.abspath(__file__))
VERIF = os.path.dirname(HERE)
sys.path.insert(0, HERE)
import native


def tool(name='gwbq', extra=()):
    info = native.build()
    out = os.path.join(info['dir'], name)
    src = os.path.join(VERIF, 'replay', name + '.cc')
    if not os.path.exists(out) or os.path.getmtime(out) < os.path.getmtime(src):
        native.compile_driver(src, out, info, extra)
    return out, info


class Q:
    """One gwbq process on one world file."""

    def __init__(self, wb_text, work, seed=1, name='w', more_worlds=()):
        os.makedirs(work, exist_ok=True)
        paths = []
        for t in (wb_text,) + tuple(more_worlds):
            pth = os.path.join(work, '%s_%s.wb' % (name, hashlib.sha1(t.encode()).hexdigest()[:8]))
            open(pth, 'w').write(t)
            paths.append(pth)
        self.path = paths[0]
        exe, _ = tool()
        self.p = subprocess.Popen([exe, self.path, str(seed)] + paths[1:], stdin=subprocess.PIPE, stdout=subprocess.PIPE,
                                  stderr=subprocess.DEVNULL, text=True, cwd=work)
        first = self.p.stdout.readline().strip()
        self.construct_error = None if first == 'OK' else first

    def ask(self, line):
        self.p.stdin.write(line + '\n')
        self.p.stdin.flush()
        ans = self.p.stdout.readline()
        if ans == '':
            return ('CRASH', self.p.poll())
        ans = ans.strip()
        if ans.startswith('EXC'):
            return ('EXC', ans[4:])
        return ('OK', ans.split())

    def close(self):
        try:
            self.p.stdin.close()
            self.p.wait(timeout=5)
        except Exception:
            self.p.kill()


def bits(h):
    """hex-float text -> 64-bit pattern (so that NaN == NaN and -0 != +0 in comparisons)"""
    if 'nan' in h.lower():
        return 'nan'
    return struct.pack('>d', float.fromhex(h)).hex()


def props_arg(req):
    return ' '.join('%d,%d,%d' % tuple(p) for p in req)
